"""C15 — header merge precedence; the algorithm used is the one recorded."""
import base64, itertools, json

ID = "C15"
CORPUS_FIRST = True
RULE = ("jws.hdr / jwe.hdr for every presence pattern of a parameter across the 2 / 3 headers with conflicting values, "
        "protected header as object and as base64url text, wrong-typed and undecodable headers; producing calls with "
        "every key type/size/curve and the algorithm given in protected / unprotected / key / nowhere, after which the "
        "object is processed using only its recorded header (run_recorded); distinct = distinct (op,args); "
        "non-trivial = at least two headers present")
EXPLANATION = "merge precedence proved on the model; differential + direct oracle (most-trusted value wins)."
ASSUMPTIONS = []
BUDGET = {"quick": 300, "thorough": 1500}


def b64u(b):
    return base64.urlsafe_b64encode(b).rstrip(b"=").decode()


def enc(o):
    return b64u(json.dumps(o, separators=(",", ":")).encode())


def as_obj(p):
    """decoded protected header for the oracle: object, or None if unusable"""
    if p == "ABSENT":
        return {}
    if isinstance(p, dict):
        return p
    if isinstance(p, str):
        try:
            d = json.loads(base64.urlsafe_b64decode(p + "=" * (-len(p) % 4)))
        except Exception:
            return None
        if base64.urlsafe_b64encode(base64.urlsafe_b64decode(p + "=" * (-len(p) % 4))).rstrip(b"=").decode() != p:
            return None
        return d if isinstance(d, dict) else None
    return None


def expect(layers):
    """most trusted first; None if any present layer is unusable"""
    out = {}
    for l in layers:
        if l == "ABSENT":
            continue
        if not isinstance(l, dict):
            return None
        for k, v in l.items():
            out.setdefault(k, v)
    return out


def p_check(op, args, real):
    if "crash" in real:
        return None
    if op == "jws.hdr":
        sig = args.get("sig")
        if not isinstance(sig, dict):
            return None
        p = as_obj(sig.get("protected", "ABSENT"))
        layers = [p if p is not None else 0, sig.get("header", "ABSENT")]
    elif op == "jwe.hdr":
        jwe, rcp = args.get("jwe"), args.get("rcp")
        if not isinstance(jwe, dict):
            return None
        p = as_obj(jwe.get("protected", "ABSENT"))
        layers = [p if p is not None else 0, jwe.get("unprotected", "ABSENT"),
                  rcp.get("header", "ABSENT") if isinstance(rcp, dict) else "ABSENT"]
    else:
        return None
    exp = expect(layers)
    if exp is None:
        if "v" in real:
            return ("hdr:accepts", "merged header produced although a header is unusable: " + json.dumps(args)[:300])
        return None
    if real.get("v") != exp:
        return ("hdr:precedence", "merged %s, expected %s for %s" % (json.dumps(real)[:200], json.dumps(exp)[:200], json.dumps(args)[:300]))
    return None


def nontrivial(op, args, real):
    o = args.get("sig") or args.get("jwe") or {}
    n = sum(1 for k in ("protected", "header", "unprotected") if isinstance(o, dict) and k in o) + (1 if args.get("rcp") else 0)
    return json.dumps(args, sort_keys=True) if n >= 2 else None


def gen(ctx):
    ops = []
    vals = {"p": {"alg": "P", "zip": "DEF", "x": 1}, "u": {"alg": "U", "enc": "E", "x": 2, "y": [1]}, "h": {"alg": "H", "enc": "EH", "kid": "k", "y": 3}}
    names = ["alg", "enc", "zip", "x", "y", "kid"]
    # every presence pattern of one name over the three layers, conflicting values
    for name in names:
        for pat in itertools.product([False, True], repeat=3):
            layer = [({name: "%s-%d" % (name, i)} if pr else {}) for i, pr in enumerate(pat)]
            for pform in ("obj", "enc", "absent"):
                for extra in (False, True):
                    L = [dict(l, **({"other%d" % i: i} if extra else {})) for i, l in enumerate(layer)]
                    prot = L[0] if pform == "obj" else enc(L[0]) if pform == "enc" else None
                    sig = {}
                    if prot is not None:
                        sig["protected"] = prot
                    if pat[1] or extra:
                        sig["header"] = L[1]
                    ops.append(("jws.hdr", {"sig": sig}))
                    jwe = {}
                    if prot is not None:
                        jwe["protected"] = prot
                    if pat[1] or extra:
                        jwe["unprotected"] = L[1]
                    rcp = {"header": L[2]} if (pat[2] or extra) else {}
                    ops.append(("jwe.hdr", {"jwe": jwe, "rcp": rcp}))
                    ops.append(("jwe.hdr", {"jwe": jwe}))
                    ops.append(("jwe.hdr", {"jwe": dict(jwe, header=L[2])}))   # flattened: jwe is its own recipient? (not by this API)
    bad = [5, "str", None, [], True, 1.5, {"a": {"b": 1}}, "e30", "W10", "NQ", "!!!", "e30=", "eyJhIjoxfQ", "eyJhIjoxLCJhIjoyfQ", ""]
    for b in bad:
        for other in ({}, {"alg": "X"}, 5):
            ops.append(("jws.hdr", {"sig": {"protected": b, "header": other}}))
            ops.append(("jws.hdr", {"sig": {"protected": {"alg": "P"}, "header": b}}))
            ops.append(("jwe.hdr", {"jwe": {"protected": b, "unprotected": other}, "rcp": {"header": {"alg": "H"}}}))
            ops.append(("jwe.hdr", {"jwe": {"protected": {"alg": "P"}, "unprotected": b}, "rcp": {"header": other}}))
            ops.append(("jwe.hdr", {"jwe": {"protected": enc({"alg": "P"}), "unprotected": other}, "rcp": {"header": b}}))
            ops.append(("jwe.hdr", {"jwe": {"unprotected": other}, "rcp": b}))
    for s in (5, None, "x", [], {}):
        ops.append(("jws.hdr", {"sig": s}))
        ops.append(("jwe.hdr", {"jwe": s, "rcp": s}))
    ops.append(("jws.hdr", {}))
    ops.append(("jwe.hdr", {}))
    return ops



# --------------------------------------------------------------------------
# part 2: the algorithm applied is the one the merged header of the result names;
#         zip is honoured only from the protected header
# --------------------------------------------------------------------------
import keys as K
import jwegen as E
import jwsgen as G
from props import c04 as C04
from props import c03 as C03

SHAPE = {"A128GCM": (12, 16, None), "A192GCM": (12, 16, None), "A256GCM": (12, 16, None),
         "A128CBC-HS256": (16, 16, 16), "A192CBC-HS384": (16, 24, 16), "A256CBC-HS512": (16, 32, 16)}
SIGLEN = {"HS256": 32, "HS384": 48, "HS512": 64, "ES256": 64, "ES384": 96, "ES512": 132, "ES256K": 64}


def merged_jwe(tok, rcp=None):
    p = as_obj(tok.get("protected", "ABSENT"))
    return expect([p if p is not None else 0, tok.get("unprotected", "ABSENT"),
                   (rcp or {}).get("header", "ABSENT")])


def p_recorded_enc(op, args, real):
    """shape of a produced JWE against the content encryption its own merged header names"""
    pf = C04.p_enc(op, args, real)
    if pf:
        return pf
    if "crash" in real:
        return None
    if args.get("_must_fail") and real.get("ok"):
        return ("enc:silently-different", "the call succeeded although the caller's values contradict each other (%s): %s"
                % (args.get("_why"), json.dumps(C04.strip(args))[:300]))
    tok = real.get("jwe")
    if not real.get("ok") or not isinstance(tok, dict) or "ciphertext" not in tok:
        return None
    h = merged_jwe(tok)
    if h is None or h.get("enc") not in SHAPE:
        return ("enc:recorded", "produced object does not name a content encryption: " + json.dumps(tok)[:300])
    if args.get("_enc") and h["enc"] != args["_enc"]:
        return ("enc:recorded", "merged header names %s, the caller's most trusted value is %s" % (h["enc"], args["_enc"]))
    ivl, tagl, blk = SHAPE[h["enc"]]
    iv, tag, ct = (G.b64d(tok.get(m, "")) for m in ("iv", "tag", "ciphertext"))
    ptl = len(args.get("pt", "")) // 2
    prot = as_obj(tok.get("protected", "ABSENT")) or {}
    zipped = "zip" in prot
    why = None
    if len(iv) != ivl or len(tag) != tagl:
        why = "iv %d / tag %d bytes" % (len(iv), len(tag))
    elif not zipped and blk is None and len(ct) != ptl:
        why = "ciphertext %d bytes for %d bytes of plaintext without protected zip" % (len(ct), ptl)
    elif not zipped and blk and len(ct) != (ptl // blk + 1) * blk:
        why = "ciphertext %d bytes for %d bytes of plaintext without protected zip" % (len(ct), ptl)
    if why:
        return ("enc:applied-differs", "object names %s but %s: %s" % (h["enc"], why, json.dumps(tok)[:300]))
    return None


def p_recorded_sig(op, args, real):
    pf = C03.p_sig(op, args, real)
    if pf:
        return pf
    if "crash" in real:
        return None
    if args.get("_must_fail") and real.get("ok"):
        return ("sig:silently-different", "signing succeeded although the caller's values contradict each other (%s)" % args.get("_why"))
    tok = real.get("jws")
    if not real.get("ok") or not isinstance(tok, dict):
        return None
    sigs = tok["signatures"] if isinstance(tok.get("signatures"), list) else [tok]
    s = sigs[-1]
    p = as_obj(s.get("protected", "ABSENT"))
    h = expect([p if p is not None else 0, s.get("header", "ABSENT")])
    if h is None or not isinstance(h.get("alg"), str):
        return ("sig:recorded", "signature names no algorithm: " + json.dumps(s)[:300])
    if args.get("_alg") and h["alg"] != args["_alg"]:
        return ("sig:recorded", "merged header names %s, expected %s (%s)" % (h["alg"], args["_alg"], args.get("_why")))
    if args.get("_inferred") and (p or {}).get("alg") != h["alg"]:
        return ("sig:recorded", "inferred algorithm not written to the protected header: " + json.dumps(s)[:300])
    n = SIGLEN.get(h["alg"])
    if h["alg"][:2] in ("RS", "PS") and isinstance(args.get("jwk"), dict) and "n" in args["jwk"]:
        n = len(G.b64d(args["jwk"]["n"]))
    if n is not None and len(G.b64d(s.get("signature", ""))) != n:
        return ("sig:applied-differs", "signature of %d bytes under recorded %s" % (len(G.b64d(s.get("signature", ""))), h["alg"]))
    return None


def cmp_sig(ctx, ops, p):
    sent = [(o, C04.strip(a)) for o, a in ops]
    back = {id(s[1]): a for s, (o, a) in zip(sent, ops)}
    return ctx.compare(sent, lambda op, args, real: p(op, back.get(id(args), args), real),
                       lambda op, args, real: json.dumps(args, sort_keys=True)[:2000], canon=C03.canon)


def run_recorded(ctx):
    rng = ctx.rng
    pool = K.pool(ctx.jose)
    pts = [b"", b"x", rng.randbytes(15), rng.randbytes(16), rng.randbytes(33), b"compressible " * 40]

    def octk(n, **kw):
        return dict({"kty": "oct", "k": G.b64u(rng.randbytes(n))}, **kw)

    # ---- content encryption: conflicting `enc` across protected / shared unprotected / key ----
    ops = []
    for ep in E.ENCS:
        for eu in E.ENCS:
            for pt in (pts[4], rng.choice(pts)):
                base = {"pt": pt.hex(), "rand": rng.randbytes(64).hex(), "_zip": False}
                # protected hides unprotected: the key fits the protected value
                ops.append(("jwe.enc_cek", dict(base, jwe={"protected": {"enc": ep}, "unprotected": {"enc": eu}},
                                                cek=octk(E.CEKLEN[ep]), _enc=ep, _expect_ok=True, _why="prot %s / unprot %s" % (ep, eu))))
            if ep != eu:
                # key's own alg contradicts the header value in force
                ops.append(("jwe.enc_cek", dict(base, jwe={"protected": {"enc": ep}, "unprotected": {"enc": eu}},
                                                cek=octk(E.CEKLEN[eu], alg=eu), _must_fail=True, _why="cek alg %s, protected enc %s" % (eu, ep))))
                ops.append(("jwe.enc_cek", dict(base, jwe={"unprotected": {"enc": eu}},
                                                cek=octk(E.CEKLEN[ep], alg=ep), _must_fail=True, _why="cek alg %s, unprotected enc %s" % (ep, eu))))
        # only the shared unprotected header names it; nothing names it (inferred from the key's alg / size)
        ops.append(("jwe.enc_cek", {"jwe": {"unprotected": {"enc": ep}, "protected": {"kid": "p"}}, "cek": octk(E.CEKLEN[ep]), "pt": pts[4].hex(),
                                    "rand": rng.randbytes(64).hex(), "_zip": False, "_enc": ep, "_expect_ok": True, "_why": "unprotected only"}))
        ops.append(("jwe.enc_cek", {"jwe": {"unprotected": {"kid": "u"}}, "cek": octk(E.CEKLEN[ep], alg=ep), "pt": pts[4].hex(),
                                    "rand": rng.randbytes(64).hex(), "_zip": False, "_enc": ep, "_expect_ok": True, "_why": "from cek alg"}))
        ops.append(("jwe.enc_cek", {"jwe": {}, "cek": octk(E.CEKLEN[ep]), "pt": pts[4].hex(),
                                    "rand": rng.randbytes(64).hex(), "_zip": False, "_expect_ok": True, "_why": "from cek size"}))
    # the same with a protected header that is already ENCODED (the form a caller holds after a first step): it still
    # hides the unprotected header; an inferred enc goes to the shared unprotected header; zip inside it is applied;
    # an unknown or ill-typed zip in the protected header (either form) refuses
    for ep, eu in (("A256GCM", "A128GCM"), ("A128CBC-HS256", "A256GCM"), ("A128GCM", "A128GCM")):
        base = {"pt": pts[4].hex(), "rand": rng.randbytes(64).hex(), "_zip": False}
        ops.append(("jwe.enc_cek", dict(base, jwe={"protected": enc({"enc": ep}), "unprotected": {"enc": eu}}, cek=octk(E.CEKLEN[ep]), _enc=ep, _expect_ok=True,
                                        _why="encoded prot %s / unprot %s" % (ep, eu))))
        if E.CEKLEN[ep] != E.CEKLEN[eu]:
            ops.append(("jwe.enc_cek", dict(base, jwe={"protected": enc({"enc": ep}), "unprotected": {"enc": eu}}, cek=octk(E.CEKLEN[eu]), _must_fail=True,
                                            _why="encoded prot %s / unprot %s, key fits the unprotected one" % (ep, eu))))
        ops.append(("jwe.enc_cek", dict(base, jwe={"protected": enc({"kid": "p"})}, cek=octk(E.CEKLEN[ep], alg=ep), _enc=ep, _expect_ok=True, _why="encoded prot without enc, cek alg " + ep)))
        ops.append(("jwe.enc_cek", dict(base, jwe={"protected": enc({"kid": "p"}), "unprotected": {"kid": "u"}}, cek=octk(E.CEKLEN[ep]), _expect_ok=True, _why="encoded prot without enc, from cek size")))
        ops.append(("jwe.enc_cek", dict(base, jwe={"protected": enc({"enc": ep, "zip": "DEF"})}, cek=octk(E.CEKLEN[ep]), pt=pts[5].hex(), _zip=True, _enc=ep, _expect_ok=True,
                                        _why="encoded prot with zip")))
    for zv in ("NOPE", "def", 5, None, ["DEF"]):
        for form in (lambda o: o, enc):
            ops.append(("jwe.enc_cek", {"jwe": {"protected": form({"enc": "A128GCM", "zip": zv})}, "cek": octk(16), "pt": pts[5].hex(), "rand": rng.randbytes(64).hex(),
                                        "_zip": False, "_why": "protected zip %r" % (zv,), **({"_must_fail": True} if isinstance(zv, str) else {})}))
            # (a zip member that is not a string names no compression: both directions then treat the content as not
            #  compressed - the round trip below still has to hold)
    # zip named outside the protected header is not applied; inside it is
    for ce in E.ENCS:
        for where in ("unprotected", "none", "protected", "both"):
            jwe = {"protected": {"enc": ce}}
            if where in ("unprotected", "both"):
                jwe["unprotected"] = {"zip": "DEF"}
            if where in ("protected", "both"):
                jwe["protected"]["zip"] = "DEF"
            ops.append(("jwe.enc_cek", {"jwe": jwe, "cek": octk(E.CEKLEN[ce]), "pt": pts[5].hex(), "rand": rng.randbytes(64).hex(),
                                        "_zip": where in ("protected", "both"), "_enc": ce, "_expect_ok": True, "_why": "zip in " + where}))
        ops.append(("jwe.enc_cek", {"jwe": {"protected": {"enc": ce}, "unprotected": {"zip": "NOPE"}}, "cek": octk(E.CEKLEN[ce]), "pt": pts[5].hex(),
                                    "rand": rng.randbytes(64).hex(), "_zip": False, "_enc": ce, "_expect_ok": True, "_why": "unknown zip outside protected"}))
    real, model = C04.cmp(ctx, ops, p_recorded_enc)
    dec = []
    for (op, a), r, m in zip(ops, real, model):
        for side, res in (("jose", r), ("lean", m)):
            if not res.get("ok"):
                continue
            tok = res["jwe"]
            why = "%s-made, %s" % (side, a.get("_why"))
            dec.append(("jwe.dec_cek", {"jwe": tok, "cek": a["cek"], "_pt": a["pt"], "_why": why}))
            if side == "jose":
                # less trusted headers edited after the fact: zip there must stay without effect
                for tag, extra in (("unprotected zip injected", {"unprotected": dict(tok.get("unprotected") or {}, zip="DEF")}),
                                   ("per-recipient zip injected", {"header": {"zip": "DEF"}}),
                                   ("unknown unprotected zip injected", {"unprotected": dict(tok.get("unprotected") or {}, zip="NOPE")})):
                    if "zip" in (tok.get("unprotected") or {}) and "unprot" in tag:
                        continue
                    dec.append(("jwe.dec_cek", {"jwe": dict(tok, **extra), "cek": a["cek"], "_pt": a["pt"], "_why": why + ", " + tag}))
    C04.cmp(ctx, dec, C04.p_dec)
    ctx.count("recorded:enc-tokens", len(dec))

    # ---- key management: conflicting `alg` across protected / shared unprotected / per-recipient ----
    ops = []
    kws = [("A128KW", 16), ("A192KW", 24), ("A256KW", 32), ("A128GCMKW", 16), ("A256GCMKW", 32)]
    layers = ("protected", "unprotected", "recipient")
    for (wa, la), (wb, lb) in itertools.permutations(kws, 2):
        if la == lb:
            continue
        for hi, lo in ((0, 1), (0, 2), (1, 2)):
            for fits in ("hi", "lo"):
                jwe, rcp = {"protected": {"enc": "A128GCM"}}, {}
                for layer, w in ((layers[hi], wa), (layers[lo], wb)):
                    if layer == "protected":
                        jwe["protected"]["alg"] = w
                    elif layer == "unprotected":
                        jwe["unprotected"] = {"alg": w}
                    else:
                        rcp = {"header": {"alg": w}}
                a = {"jwe": jwe, "rcp": rcp, "jwk": octk(la if fits == "hi" else lb), "pt": pts[4].hex(), "rand": rng.randbytes(200).hex(),
                     "_wrap": wa, "_zip": False, "_why": "%s=%s over %s=%s, key fits the %s one" % (layers[hi], wa, layers[lo], wb, fits)}
                a["_expect_ok" if fits == "hi" else "_must_fail"] = True
                ops.append(("jwe.enc", a))
    # parameters of the key-management algorithm follow the same precedence: PBES2 iteration count and ECDH-ES
    # agreement data given with conflicting values in two headers — the value in force is the more trusted one,
    # for wrapping exactly as for unwrapping
    for w in E.PBES2:
        for hi, lo in ((0, 1), (0, 2), (1, 2)):
            for vhi, vlo in ((1000, 2000), (2048, 1000)):
                jwe, rcp = {"protected": {"enc": "A128GCM", "alg": w}}, {}
                for layer, v in ((layers[hi], vhi), (layers[lo], vlo)):
                    if layer == "protected":
                        jwe["protected"]["p2c"] = v
                    elif layer == "unprotected":
                        jwe["unprotected"] = {"p2c": v}
                    else:
                        rcp = {"header": {"p2c": v}}
                ops.append(("jwe.enc", {"jwe": jwe, "rcp": rcp, "jwk": "correct horse", "pt": pts[4].hex(), "rand": rng.randbytes(200).hex(), "_wrap": w,
                                        "_zip": False, "_expect_ok": True, "_why": "p2c %s=%d over %s=%d" % (layers[hi], vhi, layers[lo], vlo)}))
        for place in layers:       # a single p2c, in each header
            jwe, rcp = {"protected": {"enc": "A128GCM", "alg": w}}, {}
            if place == "protected":
                jwe["protected"]["p2c"] = 1500
            elif place == "unprotected":
                jwe["unprotected"] = {"p2c": 1500}
            else:
                rcp = {"header": {"p2c": 1500}}
            ops.append(("jwe.enc", {"jwe": jwe, "rcp": rcp, "jwk": pool["oct-24"], "pt": pts[4].hex(), "rand": rng.randbytes(200).hex(), "_wrap": w,
                                    "_zip": False, "_expect_ok": True, "_why": "p2c only in the %s header" % place}))
    for w in ("ECDH-ES", "ECDH-ES+A192KW"):
        for hi, lo in ((0, 1), (0, 2), (1, 2)):
            jwe, rcp = {"protected": {"enc": "A128GCM", "alg": w}}, {}
            for layer, v in ((layers[hi], "QWxpY2U"), (layers[lo], "TWFsbG9yeQ")):
                if layer == "protected":
                    jwe["protected"]["apu"] = v
                elif layer == "unprotected":
                    jwe["unprotected"] = {"apu": v}
                else:
                    rcp = {"header": {"apu": v}}
            ops.append(("jwe.enc", {"jwe": jwe, "rcp": rcp, "jwk": pool["EC-P384"], "pt": pts[4].hex(), "rand": rng.randbytes(200).hex(), "_wrap": "ECDH-ES",
                                    "_zip": False, "_expect_ok": True, "_why": "apu %s over %s" % (layers[hi], layers[lo])}))
    # parameters the key-management algorithm GENERATES (PBES2 salt, ECDH-ES ephemeral key, GCMKW iv and tag), already
    # present in one of the three headers of the template: whatever the library does (refuse, overwrite, honour), the
    # merged header of the result must name what was applied - so the result, if any, decrypts
    gen_params = [("PBES2-HS256+A128KW", "correct horse", {"p2c": 1000}, [("p2s", "AAAAAAAAAAAAAAAA"), ("p2s", "")]),
                  ("ECDH-ES", pool["EC-P256"], {}, [("epk", K.public(pool["EC-P256-b"])), ("epk", {}), ("apv", "Qm9i")]),
                  ("ECDH-ES+A128KW", pool["EC-P256"], {}, [("epk", K.public(pool["EC-P256-b"]))]),
                  ("A128GCMKW", pool["oct-16"], {}, [("iv", "AAAAAAAAAAAAAAAA"), ("tag", "AAAAAAAAAAAAAAAAAAAAAA"), ("iv", "")]),
                  ("A256KW", pool["oct-32"], {}, [("epk", K.public(pool["EC-P256-b"])), ("p2s", "AAAAAAAAAAAAAAAA"), ("iv", "AAAAAAAAAAAAAAAA")])]
    for w, key, extra, params in gen_params:
        for name, val in params:
            for place in layers:
                jwe, rcp = {"protected": dict({"enc": "A128GCM", "alg": w}, **extra)}, {}
                if place == "protected":
                    jwe["protected"][name] = val
                elif place == "unprotected":
                    jwe["unprotected"] = {name: val}
                else:
                    rcp = {"header": {name: val}}
                ops.append(("jwe.enc", {"jwe": jwe, "rcp": rcp, "jwk": key, "pt": pts[4].hex(), "rand": rng.randbytes(300).hex(), "_wrap": w,
                                        "_zip": False, "_why": "%s given by the caller in the %s header (%s)" % (name, place, w)}))
    # the key's alg contradicts the header's
    for (wa, la), (wb, lb) in itertools.permutations(kws[:3], 2):
        ops.append(("jwe.enc", {"jwe": {"protected": {"enc": "A128GCM", "alg": wa}}, "jwk": octk(la, alg=wb), "pt": pts[1].hex(),
                                "rand": rng.randbytes(200).hex(), "_nodec": True, "_why": "key alg %s, protected alg %s" % (wb, wa)}))
    # inference: nothing named; key alg; key type, size, curve; password length classes
    inf = [(pool["oct-16"], "A128KW"), (pool["oct-24"], "A192KW"), (pool["oct-32"], "A256KW"),
           (pool["EC-P256"], "ECDH-ES+A128KW"), (pool["EC-P384"], "ECDH-ES+A192KW"), (pool["EC-P521"], "ECDH-ES+A256KW"),
           (pool["RSA-2048"], "RSA-OAEP"), ("short pw", "PBES2-HS256+A128KW"), ("p" * 27, "PBES2-HS256+A128KW"),
           ("p" * 28, "PBES2-HS384+A192KW"), ("p" * 36, "PBES2-HS384+A192KW"), ("p" * 37, "PBES2-HS512+A256KW")]
    for w in E.WRAPS:
        if w == "dir":
            continue
        k = E.key_for(pool, w, "A128GCM", rng)
        if isinstance(k, dict):
            inf.append((dict(k, alg=w), w))
    for ce in E.ENCS:
        inf.append((dict(pool[E.OCT_BY_LEN[E.CEKLEN[ce]]], alg=ce), "dir"))
    for k, w in inf:
        for jwe in ({}, {"protected": {"kid": "x"}}, {"unprotected": {"kid": "u"}}):
            for rcp in (None, {"header": {"kid": "r"}}):
                a = {"jwe": jwe, "jwk": k, "pt": pts[1].hex(), "rand": rng.randbytes(200).hex(), "_wrap": w,
                     "_expect_ok": True, "_walg": w, "_why": "inferred " + w}
                if rcp is not None:
                    a["rcp"] = rcp
                ops.append(("jwe.enc", a))

    def p_enc_alg(op, args, real):
        pf = p_recorded_enc(op, args, real)
        if pf:
            return pf
        tok = real.get("jwe")
        if real.get("ok") and isinstance(tok, dict) and args.get("_walg"):
            rcp = tok["recipients"][-1] if isinstance(tok.get("recipients"), list) and tok["recipients"] else tok
            if (rcp.get("header") or {}).get("alg") != args["_walg"]:
                return ("enc:recorded", "inferred key management %s not written to the per-recipient header: %s"
                        % (args["_walg"], json.dumps(tok)[:300]))
        return None
    real, model = C04.cmp(ctx, ops, p_enc_alg)
    dec = []
    for (op, a), r, m in zip(ops, real, model):
        for side, res in (("jose", r), ("lean", m)):
            if res.get("ok") and not a.get("_nodec"):
                dec.append(("jwe.dec", {"jwe": res["jwe"], "jwk": a["jwk"], "rand": "00" * 600, "_pt": a["pt"],
                                        "_why": "%s-made, %s" % (side, a.get("_why"))}))
    C04.cmp(ctx, dec, C04.p_dec)
    ctx.count("recorded:alg-tokens", len(dec))

    # ---- JWS: conflicting / inferred `alg` ----
    ops = []
    hs = [("HS256", "oct-32"), ("HS384", "oct-48"), ("HS512", "oct-64")]
    asym = [("ES256", "EC-P256"), ("ES384", "EC-P384"), ("ES512", "EC-P521"), ("ES256K", "EC-K256"), ("RS256", "RSA-2048"), ("PS384", "RSA-2048")]
    allowed = set(a.get("name") if isinstance(a, dict) else a for a in ctx.tables.get("algs", [])) if isinstance(ctx.tables, dict) else set()
    for (a1, k1), (a2, k2) in itertools.permutations(hs + asym, 2):
        if k1 == k2:
            continue
        for pform in ("obj", "enc"):
            prot = {"alg": a1}
            sig = {"protected": prot if pform == "obj" else enc(prot), "header": {"alg": a2}}
            ops.append(("jws.sig", {"jws": {"payload": "cGF5"}, "sig": sig, "jwk": pool[k1], "_expect_ok": True, "_alg": a1,
                                    "_why": "protected %s (%s) over header %s, key fits protected" % (a1, pform, a2)}))
            if a1.startswith("HS") and k2.startswith("oct") and int(k2.split("-")[1]) >= SIGLEN[a1]:
                continue        # an HMAC key long enough for the protected algorithm as well
            ops.append(("jws.sig", {"jws": {"payload": "cGF5"}, "sig": sig, "jwk": pool[k2], "_must_fail": True,
                                    "_why": "protected %s (%s) over header %s, key fits header only" % (a1, pform, a2)}))
        ops.append(("jws.sig", {"jws": {"payload": "cGF5"}, "sig": {"header": {"alg": a2}}, "jwk": dict(pool[k1], alg=a1), "_must_fail": True,
                                "_why": "key alg %s, header alg %s" % (a1, a2)}))
    infs = [("oct-16", "HS256"), ("oct-32", "HS256"), ("oct-48", "HS384"), ("oct-64", "HS512"), ("oct-128", "HS512"),
            ("EC-P256", "ES256"), ("EC-P384", "ES384"), ("EC-P521", "ES512"), ("EC-K256", "ES256K"), ("RSA-2048", "RS256"),
            ("RSA-3072", "RS256"), ("RSA-4096", "RS256")]
    for kn, a in infs:
        for sig in (None, {}, {"protected": {"kid": "k"}}, {"header": {"kid": "k"}}, {"protected": {}, "header": {"x": 1}}):
            o = {"jws": {"payload": "cGF5"}, "jwk": pool[kn], "_inferred": True, "_why": "inferred from " + kn}
            if sig is not None:
                o["sig"] = sig
            ops.append(("jws.sig", o))
    for (a1, k1) in hs + asym + [("PS256", "RSA-2048"), ("RS512", "RSA-3072")]:
        ops.append(("jws.sig", {"jws": {"payload": "cGF5"}, "jwk": dict(pool[k1], alg=a1), "_expect_ok": True, "_alg": a1, "_inferred": True,
                                "_why": "from key alg " + a1}))
    real, model = cmp_sig(ctx, ops, p_recorded_sig)
    ver = []
    for (op, a), r, m in zip(ops, real, model):
        for side, res in (("jose", r), ("lean", m)):
            if res.get("ok") and isinstance(res.get("jws"), dict):
                k = {x: v for x, v in a["jwk"].items() if x != "alg"}
                ver.append(("jws.ver", {"jws": res["jws"], "jwk": k, "all": False, "_expect": True, "_why": "%s-made, %s" % (side, a.get("_why"))}))
    cmp_sig(ctx, ver, C03.p_ver)
    ctx.count("recorded:jws-tokens", len(ver))


def run_multi_key(ctx):
    """One call for several keys with ONE template object: every recipient / signature of the result names, in its own
    merged header, the algorithm that was applied for ITS key (the key's alg, else the inference for that key), carries
    its own generated parameters, and is usable with its key alone.  Templates with and without a `header` member."""
    rng = ctx.rng
    pool = K.pool(ctx.jose)
    pt = rng.randbytes(33)

    def octk(n, **kw):
        return dict({"kty": "oct", "k": G.b64u(rng.randbytes(n))}, **kw)
    lists = [
        ([octk(16, alg="A128KW"), octk(16, alg="A128GCMKW")], ["A128KW", "A128GCMKW"]),
        ([octk(16, alg="A128GCMKW"), octk(32, alg="A256KW"), octk(24, alg="A192GCMKW")], ["A128GCMKW", "A256KW", "A192GCMKW"]),
        ([pool["EC-P256"], pool["EC-P384"]], ["ECDH-ES+A128KW", "ECDH-ES+A192KW"]),
        ([K.public(pool["EC-P256"]), K.public(pool["EC-P256-b"])], ["ECDH-ES+A128KW", "ECDH-ES+A128KW"]),
        (["short pw", "a password that is rather longer than thirty-six characters"], ["PBES2-HS256+A128KW", "PBES2-HS512+A256KW"]),
        ([pool["oct-16"], pool["RSA-2048"]], ["A128KW", "RSA-OAEP"]),
        ([pool["EC-P521"], pool["RSA-2048"], pool["oct-32"]], ["ECDH-ES+A256KW", "RSA-OAEP", "A256KW"]),
        ([octk(16, alg="A128GCMKW"), dict(pool["RSA-2048"], alg="RSA-OAEP-256")], ["A128GCMKW", "RSA-OAEP-256"]),
    ]
    priv = {json.dumps(K.public(pool[n]), sort_keys=True): pool[n] for n in pool if isinstance(pool[n], dict) and pool[n].get("kty") in ("EC", "RSA")}
    ops = []
    for keys, algs in lists:
        for tmpl in (None, {}, {"header": {}}, {"header": {"typ": "demo"}}, {"header": {"kid": "shared", "x": [1, {"y": 2}]}}):
            for form in ("array", "set"):
                a = {"jwe": {"protected": {"enc": "A128GCM"}}, "jwk": keys if form == "array" else {"keys": keys}, "pt": pt.hex(),
                     "rand": rng.randbytes(900).hex(), "_keys": keys, "_algs": algs, "_why": "%s of %d keys, template %s" % (form, len(keys), json.dumps(tmpl)),
                     "_wrap": "RSA-OAEP" if any(isinstance(k, dict) and k.get("kty") in ("EC", "RSA") for k in keys) else None}
                if tmpl is not None:
                    a["rcp"] = tmpl
                ops.append(("jwe.enc", a))

    def p_multi(op, a, real):
        if "crash" in real:
            return None
        if not real.get("ok"):
            return ("enc:refused", "one call for several keys refused (%s)" % a["_why"])
        tok = real["jwe"]
        rcps = tok.get("recipients")
        n = len(a["_keys"])
        if not isinstance(rcps, list) or len(rcps) != n:
            return ("enc:recorded", "%d keys but recipients = %s (%s)" % (n, json.dumps(rcps)[:200], a["_why"]))
        for i, (r, want) in enumerate(zip(rcps, a["_algs"])):
            h = dict(json.loads(G.b64d(tok["protected"])) if isinstance(tok.get("protected"), str) else {})
            for layer in (tok.get("unprotected") or {}, (r.get("header") or {})):
                for k_, v_ in layer.items():
                    h.setdefault(k_, v_)
            if h.get("alg") != want:
                return ("enc:recorded", "recipient %d of %d: merged header names %r, the algorithm for its key is %s (%s): %s"
                        % (i, n, h.get("alg"), want, a["_why"], json.dumps(tok)[:300]))
        gen = [json.dumps({m: (r.get("header") or {}).get(m) for m in ("epk", "iv", "tag", "p2s")}, sort_keys=True) for r in rcps]
        gen = [g for g in gen if g != json.dumps({"epk": None, "iv": None, "tag": None, "p2s": None}, sort_keys=True)]
        if len(set(gen)) != len(gen):
            return ("enc:shared-parameters", "two recipients carry the same generated parameters (%s): %s" % (a["_why"], json.dumps(rcps)[:400]))
        return None
    real, model = C04.cmp(ctx, ops, p_multi)
    dec = []
    for (op, a), r, m in zip(ops, real, model):
        for side, res in (("jose", r), ("lean", m)):
            if not res.get("ok") or not isinstance(res["jwe"].get("recipients"), list):
                continue
            for i, k in enumerate(a["_keys"]):
                kk = priv.get(json.dumps(k, sort_keys=True), k) if isinstance(k, dict) else k
                if i < len(res["jwe"]["recipients"]):
                    dec.append(("jwe.dec", {"jwe": res["jwe"], "rcp": res["jwe"]["recipients"][i], "jwk": kk, "rand": "00" * 600, "_pt": a["pt"],
                                            "_why": "%s-made, recipient %d named, %s" % (side, i, a["_why"])}))
    C04.cmp(ctx, dec, C04.p_dec)
    ctx.count("multi-key:jwe-calls", len(ops))
    ctx.count("multi-key:recipient-decryptions", len(dec))
    # JWS: one call for several keys
    sops = []
    slists = [([pool["oct-32"], pool["oct-64"]], ["HS256", "HS512"]), ([pool["EC-P256"], pool["EC-P521"], pool["RSA-2048"]], ["ES256", "ES512", "RS256"]),
              ([dict(pool["oct-64"], alg="HS256"), pool["EC-K256"]], ["HS256", "ES256K"])]
    for keys, algs in slists:
        for tmpl in (None, {}, {"header": {"kid": "shared"}}, {"protected": {"typ": "demo"}}, {"protected": {"typ": "demo"}, "header": {"kid": "s"}}):
            for form in ("array", "set"):
                a = {"jws": {"payload": "cGF5"}, "jwk": keys if form == "array" else {"keys": keys}, "_keys": keys, "_algs": algs,
                     "rnd": [rng.randbytes(32).hex() for _ in keys], "_why": "%s of %d keys, template %s" % (form, len(keys), json.dumps(tmpl))}
                if tmpl is not None:
                    a["sig"] = tmpl
                sops.append(("jws.sig", a))

    def p_smulti(op, a, real):
        if "crash" in real:
            return None
        if "_declared" in a:
            if real.get("ok"):
                return ("sig:silently-different", "a signature was made (%s) although the key declares %s: %s" % (
                    json.dumps((G.merged_header(real["jws"]) or {}).get("alg")), a["_declared"], a["_why"]))
            return None
        if not real.get("ok"):
            return ("sig:refused", "one call for several keys refused (%s)" % a["_why"])
        sigs = real["jws"].get("signatures")
        if not isinstance(sigs, list) or len(sigs) != len(a["_keys"]):
            return ("sig:recorded", "%d keys but signatures = %s" % (len(a["_keys"]), json.dumps(sigs)[:200]))
        for i, (sg, want) in enumerate(zip(sigs, a["_algs"])):
            h = G.merged_header(sg) or {}
            if h.get("alg") != want:
                return ("sig:recorded", "signature %d: merged header names %r, the algorithm for its key is %s (%s)" % (i, h.get("alg"), want, a["_why"]))
        return None
    # nothing named, the key declares an algorithm that is not a signature algorithm: nothing may be applied in its place
    for kn, decl in (("oct-32", "A256KW"), ("oct-64", "A256GCM"), ("oct-32", "dir"), ("oct-64", "A128CBC-HS256"), ("EC-P256", "ECDH-ES"), ("RSA-2048", "RSA-OAEP")):
        for tmpl in (None, {}, {"protected": {"kid": "k"}}):
            a = {"jws": {"payload": "cGF5"}, "jwk": dict(pool[kn], alg=decl), "rnd": [rng.randbytes(32).hex()], "_declared": decl,
                 "_why": "key declares %s, nothing named, template %s" % (decl, json.dumps(tmpl))}
            if tmpl is not None:
                a["sig"] = tmpl
            sops.append(("jws.sig", a))
    real, model = C03.compare(ctx, sops, p_smulti)
    ver = []
    for (op, a), r in zip(sops, real):
        if "_declared" in a:
            continue
        if r.get("ok") and isinstance(r["jws"].get("signatures"), list):
            for i, k in enumerate(a["_keys"]):
                if i < len(r["jws"]["signatures"]):
                    ver.append(("jws.ver", {"jws": r["jws"], "sig": r["jws"]["signatures"][i], "jwk": k, "_expect": True, "_why": "signature %d under its key, %s" % (i, a["_why"])}))
            ver.append(("jws.ver", {"jws": r["jws"], "jwk": a["_keys"], "all": True, "_expect": True, "_why": "all keys, " + a["_why"]}))

    def p_v(op, a, real):
        if "crash" in real:
            return None
        if a.get("_expect") and not real.get("r"):
            return ("ver:rejects-valid", "rejected (%s)" % a["_why"])
        return None
    C03.compare(ctx, ver, p_v)
    ctx.count("multi-key:jws-calls", len(sops))


def run(ctx):
    ctx.compare(gen(ctx), p_check, nontrivial)
    ctx.exhaustive = True
    extra = globals().get("run_recorded")
    if extra:
        extra(ctx)
    run_multi_key(ctx)


def replay(ctx, rp):
    ops = [(o, a) for o, a in rp.get("ops", [])] + [(d["op"], d["args"]) for d in rp.get("correspondence_disagreements", [])]
    ctx.compare(ops, p_check, nontrivial)
