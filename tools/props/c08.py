"""C08 — base64url codec: canonical bijection, output bounds, forms agree."""
import base64, itertools, json

ID = "C08"
RULE = ("enc_buf/dec_buf through real buffers with canaries for: all byte strings of length <=2, all 3-byte "
        "strings over a 16-value set, all texts of length <=2 over the full 8-bit alphabet, all 3-char texts over "
        "alphabet+specials (quick: 70 chars; thorough: all 256), 4-char texts over a 24-char set, every ol from 0 to "
        "need+1 for lengths <=64, random lengths to 64 KiB at every class mod 3/mod 4, JSON/load/dump forms with "
        "escapes; distinct = distinct (op,args); non-trivial = non-empty input")
EXPLANATION = ("Theorems in Jose/Props/C08.lean are unconditional and for all lengths; this run ties the model "
               "(Jose/B64.lean) to lib/b64.c and evaluates the property directly against Python's base64 module.")
ASSUMPTIONS = ["Python's base64 module implements RFC 4648 (independent oracle for P)",
               "jansson 2.14 json_loadb/json_dumps behave as modelled in Jose/JsonParse.lean / Jose/Json.lean "
               "(checked by the b64.dec_load / b64.enc_dump operations on generated JSON)",
               "jansson 2.14's lexer loses a raw NUL byte that directly follows a number or a literal (its push-back buffer is "
               "NUL-terminated): it accepts the decoded text '5\\0' as 5 and '[1\\0]' as [1]; the model's parser refuses both. "
               "Texts with a raw NUL in that position are not generated (NUL elsewhere is, and agrees)"]
BUDGET = {"quick": 300, "thorough": 3000}

ALPHA = b"ABCDEFGHIJKLMNOPQRSTUVWXYZabcdefghijklmnopqrstuvwxyz0123456789-_"


def ref_enc(b):
    return base64.urlsafe_b64encode(b).rstrip(b"=")


def ref_dec(t):
    """bytes if t is a canonical unpadded base64url text else None (independent of jose and of the model)"""
    if len(t) % 4 == 1 or any(c not in ALPHA for c in t):
        return None
    try:
        d = base64.urlsafe_b64decode(t + b"=" * (-len(t) % 4))
    except Exception:
        return None
    return d if ref_enc(d) == t else None


def ref_dlen(n):
    return None if n % 4 == 1 else n // 4 * 3 + (0, 0, 1, 2)[n % 4]


def expect_buf(expected_out, need, ol):
    """expected result dict for a *_buf call. need=None means impossible length."""
    if ol is None:
        return {"ret": "max" if need is None else need}
    if need is None or ol < need or expected_out is None:
        return {"ret": "max", "canary": True}
    return {"ret": len(expected_out), "canary": True, "out": expected_out.hex()}


def p_check(op, args, real):
    if "crash" in real:
        return None  # recorded by the framework
    if op == "b64.enc_buf":
        b = bytes.fromhex(args["in"])
        e = ref_enc(b)
        exp = expect_buf(e, len(e), args.get("ol"))
    elif op == "b64.dec_buf":
        t = bytes.fromhex(args["in"])
        exp = expect_buf(ref_dec(t), ref_dlen(len(t)), args.get("ol"))
    elif op == "b64.dec":
        j = args.get("j")
        if not isinstance(j, str):
            exp = {"ret": "max"} if args.get("ol") is None else {"ret": "max", "canary": True}
        else:
            t = j.encode("utf-8")
            exp = expect_buf(ref_dec(t), ref_dlen(len(t)), args.get("ol"))
    elif op == "b64.enc":
        exp = {"v": ref_enc(bytes.fromhex(args["in"])).decode()}
    elif op == "b64.enc_dump":
        j = args.get("j")
        if isinstance(j, (dict, list)):
            txt = json.dumps(j, sort_keys=True, separators=(",", ":"), ensure_ascii=False)
            # only claim an expectation when Python's dump is known to coincide with jansson's
            if all(ord(c) >= 0x20 and c not in "\x7f" for c in txt) and "." not in txt:
                exp = {"v": ref_enc(txt.encode()).decode()}
            else:
                return None
        else:
            exp = {"nil": True}
    elif op == "b64.dec_load":
        j = args.get("j")
        d = ref_dec(j.encode()) if isinstance(j, str) else None
        if d is None:
            exp = {"nil": True}
        else:
            return None  # JSON parsing itself is compared against the model, not against Python
    else:
        return None
    if real != exp:
        return ("b64:" + op, "real %s != RFC 4648 expectation %s" % (json.dumps(real)[:200], json.dumps(exp)[:200]))
    return None


def nontrivial(op, args, real):
    s = args.get("in", None)
    if s is None:
        s = json.dumps(args.get("j", None))
    return None if s in ("", "null", '""') else json.dumps(args, sort_keys=True)


def hexs(bs):
    return bytes(bs).hex()


def gen_exhaustive(ctx):
    th = ctx.tier == "thorough"
    ops = []
    # encoder: all byte strings of length <= 2, 3-byte strings over a 16-value set
    for n in (0, 1, 2):
        for t in itertools.product(range(256), repeat=n):
            ops.append(("b64.enc_buf", {"in": hexs(t), "ol": 4}))
    vals = [0, 1, 2, 3, 0x0f, 0x10, 0x3f, 0x40, 0x7f, 0x80, 0xc0, 0xf0, 0xfb, 0xfc, 0xfe, 0xff]
    for t in itertools.product(vals, repeat=3):
        ops.append(("b64.enc_buf", {"in": hexs(t), "ol": 4}))
    yield ops
    # decoder: all texts of length <= 2 over all 256 byte values
    ops = []
    for n in (0, 1, 2):
        for t in itertools.product(range(256), repeat=n):
            ops.append(("b64.dec_buf", {"in": hexs(t), "ol": 3}))
    yield ops
    # all 3-char texts over alphabet + specials (thorough: the full 8-bit alphabet)
    specials = [0, 0x20, 0x2b, 0x2f, 0x3d, 0xff]
    a3 = list(range(256)) if th else list(ALPHA) + specials
    ops = []
    for t in itertools.product(a3, repeat=3):
        ops.append(("b64.dec_buf", {"in": hexs(t), "ol": 3}))
        if len(ops) >= 400000:
            yield ops
            ops = []
    yield ops
    # 4-char texts over a 24-char set that hits every 6-bit residue class used by the trailing-bit tests
    a4 = list(b"ABCDQRgwxyz0189-_") + specials + [0x0a]
    ops = [("b64.dec_buf", {"in": hexs(t), "ol": 3}) for t in itertools.product(a4, repeat=4)]
    yield ops


def gen_bounds(ctx):
    rng = ctx.rng
    ops = []
    for n in range(0, 65):
        b = bytes(rng.randrange(256) for _ in range(n))
        e = ref_enc(b)
        for ol in list(range(0, len(e) + 2)) + [None]:
            a = {"in": b.hex()}
            if ol is not None:
                a["ol"] = ol
            ops.append(("b64.enc_buf", a))
        for ol in list(range(0, n + 2)) + [None]:
            a = {"in": e.hex()}
            if ol is not None:
                a["ol"] = ol
            ops.append(("b64.dec_buf", a))
            ops.append(("b64.dec", dict(j=e.decode(), **({} if ol is None else {"ol": ol}))))
        # non-canonical / malformed variants at this length, with exact-size buffer
        for _ in range(4):
            t = bytearray(e)
            if t:
                k = rng.randrange(len(t))
                t[k] = rng.choice([rng.randrange(256), ord("="), ord("+"), ord("/"), 0, 32, t[k] ^ 1])
            ops.append(("b64.dec_buf", {"in": bytes(t).hex(), "ol": n}))
        for extra in (b"A", b"=", b"==", b"\n", b"\x00"):
            ops.append(("b64.dec_buf", {"in": (e + extra).hex(), "ol": n + 3}))
    return ops


def gen_random(ctx):
    rng = ctx.rng
    th = ctx.tier == "thorough"
    ops = []
    sizes = [3, 4, 5, 15, 16, 17, 47, 48, 49, 63, 64, 65, 255, 256, 257, 1023, 1024, 1025, 4095, 4096, 4097]
    sizes += [rng.randrange(1, 70000) for _ in range(40 if th else 8)] + [65535, 65536, 65537]
    # the empty byte string, also given as (NULL, 0) the way jose's own callers give it (an AES-GCM ciphertext of an empty
    # plaintext comes out of jose_io_malloc as a NULL pointer of length 0)
    for nul in (False, True):
        for ol in (None, 0, 1, 4):
            a = {"in": "", "null": nul}
            if ol is not None:
                a["ol"] = ol
            ops.append(("b64.enc_buf", dict(a)))
            ops.append(("b64.dec_buf", dict(a)))
        ops.append(("b64.enc", {"in": "", "null": nul}))
    for n in sizes:
        b = rng.randbytes(n)
        e = ref_enc(b)
        ops.append(("b64.enc_buf", {"in": b.hex(), "ol": len(e)}))
        ops.append(("b64.enc_buf", {"in": b.hex()}))
        ops.append(("b64.enc", {"in": b.hex()}))
        ops.append(("b64.dec_buf", {"in": e.hex(), "ol": n}))
        ops.append(("b64.dec_buf", {"in": e.hex()}))
        ops.append(("b64.dec", {"j": e.decode(), "ol": n}))
        ops.append(("b64.dec", {"j": e.decode()}))
        # corrupt one position in each residue class
        for k in {0, 1, 2, 3, len(e) - 1, len(e) - 2, len(e) // 2}:
            if 0 <= k < len(e):
                t = bytearray(e)
                t[k] = rng.choice([ord("="), ord("+"), ord("/"), 0, 32, 0x80, t[k] ^ 1, t[k] ^ 0x20])
                ops.append(("b64.dec_buf", {"in": bytes(t).hex(), "ol": n + 3}))
    return ops


JVALS = [None, True, False, 0, -1, 1, 9223372036854775807, -9223372036854775808, "", "a", "é", "\u0001", "\"\\/",
         "€\U0001f600", "a\u0000b", [], {}, [1, [2, [3]]], {"a": 1, "b": {"c": []}}, {"": 0},
         {"b": 1, "a": 2, "é": 3, "B": 4}, ["x", {"k": "v"}], "line\nbreak\ttab\r\b\f", "\x7f", 1.5, -0.25]

TEXTS = ['{"a":1}', '[1,2,3]', '5', '"s"', 'true', 'null', ' {"a" : [ 1 , 2 ] } ', '{"a":1,"a":2}', '{"a":1,"b":2,"a":3}',
         '01', '-', '-0', '1e5', '1.5', '1.', '.5', '[1,]', '{"a":1,}', '{a:1}', "{'a':1}", '"\\u0041"', '"\\u0000"',
         '"\\ud83d\\ude00"', '"\\ud83d"', '"\\ude00"', '"\\uD83D\\u0041"', '"\x01"', '"abc', 'tru', 'truex', 'nullnull',
         '[] []', '{}x', '', ' ', '\n5\n', '9223372036854775807', '9223372036854775808', '-9223372036854775808',
         '-9223372036854775809', '"\\x"', '"\\/"', '[[[[[[[[[[1]]]]]]]]]]', '{"k":{"k":{"k":null}}}', '"é"', '\xff', 'NaN',
         '1E+2', '1e-2', '-1.5e+10', '[1 2]', '{"a" 1}', '{"a":}', '[,1]', '"\t"', '"a\\tb"', '0.0', '-0.0', '1x']


def gen_json(ctx):
    rng = ctx.rng
    ops = []
    for v in JVALS:
        ops.append(("b64.enc_dump", {"j": v}))
        ops.append(("b64.dec", {"j": v, "ol": 8}))
        ops.append(("b64.dec", {"j": v}))
        ops.append(("b64.dec_load", {"j": v}))
    ops.append(("b64.enc_dump", {}))
    ops.append(("b64.dec_load", {}))
    ops.append(("b64.dec", {}))
    # size queries (NULL output) on text that is not canonical: length 1 mod 4, characters outside the alphabet
    for t in ("A", "AAAAA", "AAAAAAAAA", "A=", "A*AA", "AA\n", "====", "AAA\x00", "+/+/"):
        ops.append(("b64.dec_buf", {"in": t.encode("latin-1").hex()}))
        ops.append(("b64.dec", {"j": t}))
    # decoded text with a raw NUL in or behind the JSON value; numbers with fraction / exponent inside containers
    # (not generated: a raw NUL directly behind a number or literal - jansson's lexer loses it in its NUL-terminated
    #  push-back buffer and accepts b'5\x00' and b'[1\x00]'; the model's parser does not mirror that, see ASSUMPTIONS)
    for tb in (b'{"a":1}\x00x', b'\x00', b'"a\x00b"', b'{"a":1}\x00', b'{"a":"b"\x00}', b'["x"\x00]', b'[1.5,{"a":-0.25,"b":1e+30,"c":0.1}]', b'{"r":2.0,"s":1E2}'):
        ops.append(("b64.dec_load", {"j": ref_enc(tb).decode()}))
    for v in ([1.5, {"a": -0.25, "b": 0.5}], {"r": 2.5}):
        ops.append(("b64.enc_dump", {"j": v}))
    for t in TEXTS:
        tb = t.encode("latin-1") if any(ord(c) > 0x7f and ord(c) < 0x100 and t in ('\xff',) for c in t) else t.encode("utf-8")
        ops.append(("b64.dec_load", {"j": ref_enc(tb).decode()}))
    # random nested JSON through dump -> b64 -> load
    def rj(d):
        k = rng.randrange(8 if d < 3 else 5)
        if k == 0: return None
        if k == 1: return rng.choice([True, False])
        if k == 2: return rng.choice([0, 1, -1, rng.randrange(-2**63, 2**63)])
        if k in (3, 4): return "".join(rng.choice("ab\"\\/\né€\x01 \x7f") for _ in range(rng.randrange(6)))
        if k in (5, 6): return [rj(d + 1) for _ in range(rng.randrange(4))]
        return {"".join(rng.choice("abé\"") for _ in range(rng.randrange(3))): rj(d + 1) for _ in range(rng.randrange(4))}
    for _ in range(300 if ctx.tier == "quick" else 3000):
        v = rj(0)
        ops.append(("b64.enc_dump", {"j": v}))
        if isinstance(v, (list, dict)):
            txt = json.dumps(v, ensure_ascii=rng.random() < 0.5, separators=rng.choice([(",", ":"), (", ", ": ")]))
            ops.append(("b64.dec_load", {"j": ref_enc(txt.encode()).decode()}))
    return ops


def run(ctx):
    for chunk in gen_exhaustive(ctx):
        ctx.compare(chunk, p_check, nontrivial, sample_every=max(1, len(chunk) // 2))
    ctx.exhaustive = True
    ctx.compare(gen_bounds(ctx), p_check, nontrivial)
    ctx.compare(gen_random(ctx), p_check, nontrivial)
    ctx.compare(gen_json(ctx), p_check, nontrivial)
    run_stream(ctx)


def run_stream(ctx):
    """the streaming forms agree with the buffer forms, bounded output included: for every input length 0..40 (and a
    few long ones), every output capacity from 0 to required+1 and several chunkings (whole, byte-wise, random,
    with empty feeds), the streamed codec into a buffer sink of that capacity succeeds exactly when the buffer
    form does and leaves the same bytes; invalid text of every class is refused by the streamed decoder as well"""
    from props import c07 as C07
    rng = ctx.rng
    ops = []
    lens = list(range(0, 41)) + [47, 48, 49, 63, 64, 65, 95, 96, 97, 1000]
    for n in lens:
        raw = rng.randbytes(n)
        txt = ref_enc(raw)
        for kind, data, need in (("b64enc", raw, len(txt)), ("b64dec", txt, n)):
            caps = sorted({c for c in (0, need - 2, need - 1, need, need + 1) if c >= 0})
            for cap in caps:
                for parts in ([len(data)], [1] * len(data), C07.rand_parts(rng, len(data), [3, 4, 48, 64])):
                    feeds = C07.split(data, parts)
                    ops.append(("io.run", {"chain": [kind, ["buffer", cap]], "feeds": feeds}))
                    if rng.random() < 0.3:
                        ops.append(("io.run", {"chain": [kind, ["buffer", cap]], "feeds": C07.with_empties(rng, feeds) + [""]}))
            ops.append(("io.run", {"chain": [kind, ["malloc"]], "feeds": C07.split(data, C07.rand_parts(rng, len(data), [3, 4]))}))
        # text the decoder must refuse, streamed
        for bad in (txt + b"=", txt + b"A" if len(txt) % 4 == 0 else txt[:-1] + b"*", txt[:1] + b" " + txt[1:], txt + b"\n", b"+" + txt, txt + b"\x00"):
            for parts in ([len(bad)], [1] * len(bad)):
                ops.append(("io.run", {"chain": ["b64dec", ["malloc"]], "feeds": C07.split(bad, parts)}))
        # text over the alphabet only that is not canonical: one dangling character (length 1 mod 4), unused final bits set
        alpha = b"ABCDEFGHIJKLMNOPQRSTUVWXYZabcdefghijklmnopqrstuvwxyz0123456789-_"
        bads = [txt + b"A"] if len(txt) % 4 == 0 else []
        if len(txt) % 4 in (2, 3):
            bads.append(txt[:-1] + bytes([alpha[alpha.index(txt[-1]) | 1]]) if alpha.index(txt[-1]) & 1 == 0 else txt[:-1] + bytes([alpha[alpha.index(txt[-1]) ^ 1 | 1]]))
            bads.append(txt[:-1] + bytes([alpha[(alpha.index(txt[-1]) | (2 if len(txt) % 4 == 3 else 8))]]))
        for bad in bads:
            if bad == txt:
                continue
            for sink in (["malloc"], ["buffer", n + 3]):
                for parts in ([len(bad)], [1] * len(bad), C07.rand_parts(rng, len(bad), [3, 4, 64])):
                    ops.append(("io.run", {"chain": ["b64dec", sink], "feeds": C07.split(bad, parts)}))
    ctx.compare(ops, C07.p_check, lambda o, a, r: json.dumps(a, sort_keys=True), canon=C07.canon)
    ctx.count("stream-vs-buffer", len(ops))


def replay(ctx, rp):
    ops = [(o, a) for o, a in rp.get("ops", [])]
    for d in rp.get("correspondence_disagreements", []):
        ops.append((d["op"], d["args"]))
    ctx.compare(ops, p_check, nontrivial)
