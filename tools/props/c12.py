"""C12 — thumbprints follow RFC 7638 and agree with key equality."""
import base64, copy, hashlib, itertools, json
import keys as K
import jwsgen as G

ID = "C12"
RULE = ("jwk.thp / jwk.thp_buf (every len 0..70 for each of the five hashes, canaries) / jwk.eql on families of keys "
        "that differ in exactly one required or one other member, member order permuted, values with quotes, "
        "backslashes, control characters, non-ASCII, long; pairs and triples for symmetry/transitivity; RFC 7638 "
        "example key; distinct = distinct (op,args); non-trivial = key has a registered type")
EXPLANATION = "thumbprint input, equality and their agreement proved on the model; digest compared with hashlib."
ASSUMPTIONS = ["Python hashlib as reference digest; Python json.dumps(sort_keys, compact) as the RFC 7638 string for values "
               "without control characters"]
BUDGET = {"quick": 300, "thorough": 1500}

REQ = {"oct": ["k"], "RSA": ["e", "n"], "EC": ["crv", "x", "y"]}
HASHES = {"S1": "sha1", "S224": "sha224", "S256": "sha256", "S384": "sha384", "S512": "sha512"}


def canon_kty(k):
    for t in REQ:
        if isinstance(k, str) and k.lower() == t.lower():
            return t
    return None


def rfc7638(jwk):
    """RFC 7638 string, or None when the key has no thumbprint, or 'skip' when Python's and jansson's
    escaping conventions may differ (control characters, reals)"""
    if not isinstance(jwk, dict):
        return None
    t = canon_kty(jwk.get("kty"))
    if t is None:
        return None
    o = {"kty": jwk["kty"]}
    for m in REQ[t]:
        if m not in jwk:
            return None
        o[m] = jwk[m]
    s = json.dumps(o, sort_keys=True, separators=(",", ":"), ensure_ascii=False)
    if any(ord(c) < 0x20 or c == "\x7f" for c in s) or "\\u" in s or any(isinstance(v, float) for v in o.values()):
        return "skip"
    if any(isinstance(v, (dict, list)) for v in o.values()):
        return "skip"
    return s


def b64u(b):
    return base64.urlsafe_b64encode(b).rstrip(b"=").decode()


def p_check(op, args, real):
    if "crash" in real:
        return None
    if op == "jwk.thp":
        s = rfc7638(args.get("jwk"))
        alg = args.get("alg")
        if s == "skip":
            return None
        if s is None or alg not in HASHES:
            if "v" in real:
                return ("thp:unexpected", "thumbprint produced for a key/hash that has none: " + json.dumps(args)[:300])
            return None
        exp = b64u(hashlib.new(HASHES[alg], s.encode()).digest())
        if real.get("v") != exp:
            return ("thp:value", "thumbprint %s != RFC 7638 %s for %s" % (real, exp, json.dumps(args)[:300]))
    if op == "jwk.thp_buf":
        s = rfc7638(args.get("jwk"))
        alg = args.get("alg")
        if s == "skip":
            return None
        n = args.get("len")
        if real.get("canary") is False:
            return ("thp_buf:overflow", "wrote beyond the stated length: " + json.dumps(args)[:300])
        if alg not in HASHES:
            if real["ret"] != "max":
                return ("thp_buf:unexpected", "unknown hash accepted")
            return None
        sz = hashlib.new(HASHES[alg]).digest_size
        if n is None or n == 0:
            if real["ret"] != sz:
                return ("thp_buf:size", "size query returned %s, digest length is %d" % (real["ret"], sz))
            return None
        if s is None or n < sz:
            if real["ret"] != "max":
                return ("thp_buf:unexpected", "success although key has no thumbprint or buffer too small: " + json.dumps(args)[:200])
            return None
        exp = hashlib.new(HASHES[alg], s.encode()).digest().hex()
        if real["ret"] != sz or real.get("out") != exp:
            return ("thp_buf:value", "buffer form %s != %s" % (json.dumps(real)[:200], exp))
    return None


def nontrivial(op, args, real):
    j = args.get("jwk", args.get("a"))
    return json.dumps(args, sort_keys=True) if isinstance(j, dict) and canon_kty(j.get("kty")) else None


STRS = ["", "a", "AQAB", "é", "\"", "\\", "/", "a\"b\\c", "\u0001", "\n\t\r\b\f", "\u001f", "\x7f", "€\U0001f600", "a" * 3000,
        "A", "a ", " a"]
OTHERVALS = [None, True, False, 0, 1, -1, 2**62, [], {}, [1], {"a": 1}, 1.5]


def family(pool):
    """keys that differ in exactly one required / one other member"""
    fam = []
    for name in ("oct-32", "RSA-2048", "EC-P256", "EC-P521"):
        k = pool[name]
        t = k["kty"]
        fam.append(k)
        fam.append(K.public(k))
        fam.append(dict(reversed(list(k.items()))))
        for m in REQ[t]:
            for v in STRS[:8] + OTHERVALS[:6]:
                fam.append(dict(k, **{m: v}))
            fam.append({a: b for a, b in k.items() if a != m})
        fam.append(dict(k, kid="x", alg="y", use="sig", key_ops=["sign"], extra={"n": 1}))
        for kty in (t.lower(), t.upper(), t[0] + t[1:].lower(), t + "x", ""):
            fam.append(dict(k, kty=kty))
        fam.append({a: b for a, b in k.items() if a != "kty"})
        fam.append(dict(k, kty=5))
    for s in STRS:
        fam.append({"kty": "oct", "k": s})
        fam.append({"kty": "EC", "crv": s, "x": s, "y": "y"})
    for v in OTHERVALS:
        fam.append({"kty": "oct", "k": v})
        fam.append({"kty": "RSA", "e": v, "n": "n"})
    # RFC 7638 section 3.1 example
    fam.append({"kty": "RSA", "n": "0vx7agoebGcQSuuPiLJXZptN9nndrQmbXEps2aiAFbWhM78LhWx4cbbfAAtVT86zwu1RK7aPFFxuhDR1L6tSoc_BJECPebWKRXjBZCiFV4n3oknjhMstn64tZ_2W-5JsGY4Hc5n9yBXArwl93lqt7_RN5w6Cf0h4QyQ5v-65YGjQR0_FDW2QvzqY368QQMicAtaSqzs8KJZgnYb9c7d0zgdAZHzu6qMQvRL5hajrn1n91CbOpbISD08qNLyrdkt-bFTWhAI4vMQFh6WeZu0fM4lFd2NcRwr3XPksINHaQ-G_xBniIqbw0Ls1jF44-csFCur-kEgU8awapJzKnqDKgw", "e": "AQAB", "alg": "RS256", "kid": "2011-04-29"})
    # strings with an embedded NUL: the whole string is the member's value, in the thumbprint and in equality
    for a_, b_ in (("a\u0000b", "a"), ("a\u0000", "a"), ("\u0000", "")):
        fam.append({"kty": "oct", "k": a_})
        fam.append({"kty": "oct", "k": b_})
        fam.append({"kty": "EC", "crv": a_, "x": "x", "y": "y"})
        fam.append({"kty": "EC", "crv": b_, "x": "x", "y": "y"})
    # extra members that are named like the required / private members of ANOTHER key type: ignored like any other extra
    o32, rsa_, ec_ = pool["oct-32"], pool["RSA-2048"], pool["EC-P256"]
    fam.append(dict(o32, n=rsa_["n"], e="AQAB", crv="P-256", x="a", y="b", d="c"))
    fam.append(dict(K.public(rsa_), k="AAAA", crv="P-256", x="a", y="b"))
    fam.append(dict(K.public(ec_), k="AAAA", n="AQAB", e="AQAB"))
    fam += [{}, 5, None, "oct", [], {"kty": "bogus", "k": "a"}]
    return fam


def run(ctx):
    rng = ctx.rng
    pool = K.pool(ctx.jose)
    fam = family(pool)
    ops = []
    for k in fam:
        for alg in list(HASHES) + ["S999", "sha256", ""]:
            ops.append(("jwk.thp", {"jwk": k, "alg": alg}))
    # names of registered algorithms that are not hashes, other letter case, near misses: no thumbprint
    for k in (pool["oct-32"], pool["EC-P256"]):
        for alg in ("HS256", "A128GCM", "ES256", "ECDH", "DEF", "s256", "S256 ", "S25", "S2560", "SHA-256"):      # (the hash name is a C string in the API: no NUL variant)
            ops.append(("jwk.thp", {"jwk": k, "alg": alg}))
            ops.append(("jwk.thp_buf", {"jwk": k, "alg": alg, "len": 64}))
    for k in [pool["oct-32"], pool["EC-P384"], pool["RSA-2048"], dict(pool["EC-P256"], kid="é\"\\", extra=[1]), {"kty": "oct"}, 5]:
        for alg in list(HASHES) + ["S999"]:
            for n in list(range(0, 71)) + [None, 1024]:
                a = {"jwk": k, "alg": alg}
                if n is not None:
                    a["len"] = n
                ops.append(("jwk.thp_buf", a))
    real, _ = ctx.compare(ops, p_check, nontrivial)
    # equality: all ordered pairs of the family (thorough) / a sample (quick), compared with thumbprint equality
    thp = {}
    for (op, args), r in zip(ops, real):
        if op == "jwk.thp" and args["alg"] == "S256":
            thp[json.dumps(args["jwk"], sort_keys=True)] = r.get("v")
    pairs = [(a, b) for a in fam for b in fam]
    if ctx.tier == "quick":
        pairs = rng.sample(pairs, min(len(pairs), 20000)) + [(a, a) for a in fam]
    eops = [("jwk.eql", {"a": a, "b": b}) for a, b in pairs]
    ereal, _ = ctx.compare(eops, None, nontrivial)
    eq = {}
    for (op, args), r in zip(eops, ereal):
        if "r" not in r:
            continue
        a, b = json.dumps(args["a"], sort_keys=True), json.dumps(args["b"], sort_keys=True)
        eq[(a, b)] = r["r"]
        ta, tb = thp.get(a), thp.get(b)
        has_real = "1.5" in a or "1.5" in b
        expect = ta is not None and tb is not None and ta == tb
        if r["r"] != expect and not has_real:
            ctx.pfails.append(("eql:thp", "eql=%s but thumbprints %s / %s : %s" % (r["r"], ta, tb, json.dumps(args)[:300]), op, args, r))
    # symmetry and transitivity on the sampled relation
    for (a, b), v in eq.items():
        if (b, a) in eq and eq[(b, a)] != v:
            ctx.pfails.append(("eql:symmetry", "eql(a,b) != eql(b,a): %s %s" % (a[:100], b[:100]), "jwk.eql", {"a": json.loads(a), "b": json.loads(b)}, {"r": v}))
    ctx.count("eql-pairs", len(eq))
    run_convert(ctx, pool)


def run_convert(ctx, pool):
    """conversion to OpenSSL and back preserves the members the thumbprint is computed from (hence the thumbprint and
    equality): every pool key, and EC keys whose x / y begin with a zero byte (fixed-width coordinates)"""
    import os
    lz = json.load(open(os.path.join(K.VERIF, "corpus", "keys", "leading_zero.json")))
    keys = [(n, k) for n, k in sorted(pool.items()) if k["kty"] != "oct"] + sorted(lz.items())
    keys += [(n + "-public", K.public(k)) for n, k in keys]
    # symmetric keys go through the EVP_PKEY (HMAC) conversion: several lengths, and bytes that contain NUL
    keys += [(n, pool[n]) for n in ("oct-16", "oct-32", "oct-64", "oct-1024") if n in pool]
    keys += [("oct-with-NUL", {"kty": "oct", "k": G.b64u(b"ab\x00cd\x00\x00ef")}), ("oct-1-byte", {"kty": "oct", "k": "AA"})]
    # RSA private keys with every subset of the CRT members (p, q, dp, dq, qi): whatever is present comes back unchanged
    # and nothing appears that was absent - or the import is refused
    rsa = pool["RSA-2048"]
    crt = ("p", "q", "dp", "dq", "qi")
    for mask in range(1 << 5):
        sub = {m: rsa[m] for m in ("kty", "n", "e", "d")}
        sub.update({m: rsa[m] for i, m in enumerate(crt) if mask >> i & 1})
        keys.append(("RSA-2048 with CRT subset {%s}" % ",".join(m for i, m in enumerate(crt) if mask >> i & 1), sub))
    keys.append(("RSA-2048 CRT without d", {m: rsa[m] for m in ("kty", "n", "e", "p", "q", "dp", "dq", "qi")}))
    ops = [("ossl.roundtrip", {"jwk": k}) for n, k in keys]
    real = ctx.real(ops)
    back = []
    for (n, k), r in zip(keys, real):
        ctx.evaluations += 1
        if "crash" in r:
            ctx.pfails.append(("crash:ossl.roundtrip", r["crash"], "ossl.roundtrip", {"jwk": k}, r))
            continue
        j = r.get("jwk")
        if not r.get("imported") or not isinstance(j, dict):
            if "CRT" in n:
                ctx.count("convert:CRT-subset-refused")       # refusal of an incomplete CRT set is admitted; losing members is not
                continue
            ctx.pfails.append(("convert:refused", "key %s does not survive conversion to OpenSSL and back" % n, "ossl.roundtrip", {"jwk": k}, r))
            continue
        req = {"EC": ["kty", "crv", "x", "y"], "RSA": ["kty", "n", "e"], "oct": ["kty", "k"]}[k["kty"]]
        if k["kty"] == "RSA":
            extra_m = [m for m in ("p", "q", "dp", "dq", "qi") if m in j and m not in k]
            if extra_m:
                ctx.pfails.append(("convert:member", "members %s appear in the conversion of %s although the key did not have them" % (extra_m, n),
                                   "ossl.roundtrip", {"jwk": k}, r))
                continue
        for m in req + [m_ for m_ in ("d", "p", "q", "dp", "dq", "qi") if m_ in k]:
            if j.get(m) != k.get(m):
                ctx.pfails.append(("convert:member", "member %r of %s changes in conversion to OpenSSL and back: %r -> %r" % (m, n, k.get(m), j.get(m)),
                                   "ossl.roundtrip", {"jwk": k}, r))
                break
        else:
            back.append((n, k, j))
    # non-minimal encodings (RFC 7518 2: Base64urlUInt uses the minimum number of octets; EC coordinates are full width):
    # such input is refused or normalised - the numbers survive, and nothing else changes
    rsa2 = pool["RSA-2048"]
    nonmin = [("RSA e with a leading zero octet", dict(K.public(rsa2), e=G.b64u(b"\0" + G.b64d(rsa2["e"]))), "e"),
              ("RSA n with a leading zero octet", dict(K.public(rsa2), n=G.b64u(b"\0" + G.b64d(rsa2["n"]))), "n"),
              ("RSA d with a leading zero octet", dict(rsa2, d=G.b64u(b"\0" + G.b64d(rsa2["d"]))), "d")]
    for (why, k, m), r in zip(nonmin, ctx.real([("ossl.roundtrip", {"jwk": k}) for _, k, _ in nonmin])):
        ctx.evaluations += 1
        j = r.get("jwk")
        if r.get("imported") and isinstance(j, dict):
            if int.from_bytes(G.b64d(j.get(m, "")), "big") != int.from_bytes(G.b64d(k[m]), "big"):
                ctx.pfails.append(("convert:member", "%s: the number changes in conversion to OpenSSL and back" % why, "ossl.roundtrip", {"jwk": k}, r))
            for m2 in k:
                if m2 not in (m, ) and j.get(m2) != k[m2]:
                    ctx.pfails.append(("convert:member", "%s: member %r changes too" % (why, m2), "ossl.roundtrip", {"jwk": k}, r))
                    break
        ctx.count("convert:non-minimal-encodings")
    # conversion never yields a key with *less* than the JWK had: a member that is present but is not decodable text is
    # not read as absent — the conversion fails (a private key must not quietly become a public or a CRT-only one)
    junk_ops = []
    for n, k in keys:
        prv = [m for m in ("d", "p", "q", "dp", "dq", "qi", "x", "y", "n", "e") if m in k]
        for m in prv:
            for junk in ("!!", "A", 5):
                junk_ops.append(("ossl.roundtrip", {"jwk": dict(k, **{m: junk}), "_n": n, "_m": m}))
    for (o, a), r in zip(junk_ops, ctx.real([(o, {"jwk": a["jwk"]}) for o, a in junk_ops])):
        ctx.evaluations += 1
        if "crash" in r:
            ctx.pfails.append(("crash:ossl.roundtrip", r["crash"], o, {"jwk": a["jwk"]}, r))
        elif r.get("imported"):
            ctx.pfails.append(("convert:undecodable-member", "key %s with %s = %s is converted to an OpenSSL key (member taken for absent): %s"
                               % (a["_n"], a["_m"], json.dumps(a["jwk"][a["_m"]]), json.dumps(r.get("jwk"))[:200]), o, {"jwk": a["jwk"]}, r))
    ctx.count("undecodable-member conversions", len(junk_ops))
    eq = ctx.real([("jwk.eql", {"a": k, "b": j}) for n, k, j in back])
    for (n, k, j), r in zip(back, eq):
        ctx.evaluations += 1
        if not r.get("r"):
            ctx.pfails.append(("convert:eql", "%s is not equal to its own round trip" % n, "jwk.eql", {"a": k, "b": j}, r))
    # the same keys through generation-independent consumers: exchange results are fixed-width too
    ex = []
    for n, k in sorted(lz.items()):
        peer = pool[{"P-256": "EC-P256", "P-384": "EC-P384", "P-521": "EC-P521", "secp256k1": "EC-K256"}[k["crv"]]]
        if k["crv"] != "secp256k1":
            ex.append(("jwk.exc", {"prv": dict(peer, alg="ECMR"), "pub": dict(K.public(k), alg="ECMR"), "_k": k, "_peer": peer}))
    import ecmath as EC
    sent = [(o, {kk: v for kk, v in a.items() if not kk.startswith("_")}) for o, a in ex]
    for (o, a), r in zip(ex, ctx.real(sent)):
        ctx.evaluations += 1
        v = r.get("v")
        if v:
            c = EC.CURVES[a["_k"]["crv"]]
            for m in ("x", "y"):
                if len(K.b64d(v[m])) != c["len"]:
                    ctx.pfails.append(("convert:width", "exchange result has a %d-byte %s on %s" % (len(K.b64d(v[m])), m, a["_k"]["crv"]), o, sent[0][1], r))
    ctx.count("converted-keys", len(keys))


def replay(ctx, rp):
    ops = [(o, a) for o, a in rp.get("ops", [])] + [(d["op"], d["args"]) for d in rp.get("correspondence_disagreements", [])]
    ctx.compare(ops, p_check, nontrivial)
