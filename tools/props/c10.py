"""C10 — weak or invalid key material is refused."""
import copy, hashlib, hmac, json, os, random
import keys as K
import jwsgen as G
import jwegen as E
import ecmath as EC

ID = "C10"
RULE = ("for every algorithm, on the producing and the consuming side: HMAC keys of every length 0..1100, 4096, 65536 "
        "(verification with a signature that is valid for that very key, so that only the key-length rule can refuse); "
        "RSA signature keys of 512, 768, 1024, 1536, 2040 (refuse) and 2048 bits (accept) as signer and verifier, with valid "
        "RS256 signatures computed by an independent implementation; EC keys on four curves: (x, y+1), (x+1, y), (0, 0), "
        "(x, -y) with d, point of another key with this d, coordinates of another curve, d+1, d = 0, d = n, d = n + d, "
        "unknown / misspelt curve names, through sign, verify, exchange (both roles), ECDH-ES wrap and unwrap; content "
        "keys of every length 0..70 for 6 content algorithms (enc and dec); key-wrapping keys of every length 0..40 for "
        "A*KW / A*GCMKW (wrap and unwrap); direct keys of the wrong length. distinct = distinct (op,args); non-trivial = "
        "every line")
EXPLANATION = ("admission predicates are theorems on the model for every instance of the primitives; the grids tie the "
               "model to hmac.c, rsassa.c, jwk.c (EC import), aesgcm.c, aescbch.c, aeskw.c, aesgcmkw.c, ecdh.c, ecmr.c, "
               "ecdhes.c; the independent oracle is pure-Python (hmac/hashlib, big-integer RSA and curve arithmetic)")
ASSUMPTIONS = ["a coordinate or private value with additional leading zero bytes denotes the same number and is not 'invalid' "
               "in the sense of the property; a coordinate >= p is counted as invalid only if its residue is off the curve "
               "(OpenSSL reduces it)"]
BUDGET = {"quick": 600, "thorough": 1800}
KEYMAX = 1024
VERIF = os.path.dirname(os.path.dirname(os.path.dirname(os.path.abspath(__file__))))
SMALL = os.path.join(VERIF, "corpus", "keys", "small_rsa.json")


def strip(a):
    return {k: v for k, v in a.items() if not k.startswith("_")}


def cmp(ctx, ops, canon=None):
    sent = [(o, strip(a)) for o, a in ops]
    amap = {id(s[1]): a for s, (o, a) in zip(sent, ops)}
    def pc(op, args, real):
        return p_check(op, amap[id(args)], real)
    cn = (lambda op, args, r: canon(op, amap[id(args)], r)) if canon else None
    return ctx.compare(sent, pc, lambda op, args, real: json.dumps(args, sort_keys=True)[:3000], canon=cn)


def ok_of(op, real):
    if op in ("jws.ver",):
        return bool(real.get("r"))
    if op in ("jwk.exc", "jwe.dec_jwk"):
        return "v" in real
    return bool(real.get("ok"))


def p_check(op, a, real):
    if "crash" in real:
        return None
    if a.get("_refuse") and ok_of(op, real):
        return (a["_site"], "%s succeeded with %s: %s" % (op, a["_why"], json.dumps(strip(a))[:500]))
    if a.get("_accept") and not ok_of(op, real):
        return (a["_site"] + ":refuses-valid", "%s refused %s: %s" % (op, a["_why"], json.dumps(strip(a))[:500]))
    return None


def mask(op, a, r):
    if isinstance(r, dict) and r.get("ok") and op in ("jws.sig", "jwe.enc", "jwe.enc_jwk", "jwe.enc_cek"):
        return {"ok": True}        # randomized outputs are C03/C04's business; here the verdict
    return r


# ---------------------------------------------------------------- HMAC

HASH = {"HS256": hashlib.sha256, "HS384": hashlib.sha384, "HS512": hashlib.sha512}


def run_hmac(ctx):
    rng = ctx.rng
    pay = G.b64u(b"payload")
    lens = list(range(0, 1101)) + [4096, 65536]
    if ctx.tier == "quick":
        lens = list(range(0, 140)) + list(range(1000, 1040)) + [255, 256, 257, 511, 512, 513, 1100, 4096, 65536]
    ops = []
    for alg in G.HS:
        prot = G.enc({"alg": alg})
        for n in lens:
            kb = rng.randbytes(n)
            key = {"kty": "oct", "k": G.b64u(kb)}
            bad = n < G.HLEN[alg] or n > KEYMAX
            tag = hmac.new(kb, (prot + "." + pay).encode(), HASH[alg]).digest()
            tok = {"payload": pay, "protected": prot, "signature": G.b64u(tag)}
            why = "a %d-byte key for %s" % (n, alg)
            flag = "_refuse" if bad else "_accept"
            ops.append(("jws.sig", {"jws": {"payload": pay}, "sig": {"protected": {"alg": alg}}, "jwk": key, flag: True,
                                    "_site": "hmac:key-length", "_why": why + " (sign)"}))
            ops.append(("jws.ver", {"jws": tok, "jwk": key, "all": False, flag: True, "_site": "hmac:key-length", "_why": why + " (verify, genuine tag)"}))
            if n in (G.HLEN[alg] - 1, G.HLEN[alg]):
                # key declaring the algorithm, key without kty: same rule
                ops.append(("jws.sig", {"jws": {"payload": pay}, "jwk": dict(key, alg=alg), flag: True, "_site": "hmac:key-length", "_why": why + " (sign, key names alg)"}))
    cmp(ctx, ops, mask)
    ctx.count("hmac-lengths", len(lens))


# ---------------------------------------------------------------- RSA

def is_prime(n, rng):
    if n < 2:
        return False
    for p in (2, 3, 5, 7, 11, 13, 17, 19, 23, 29, 31, 37):
        if n % p == 0:
            return n == p
    d, s = n - 1, 0
    while d % 2 == 0:
        d //= 2
        s += 1
    for _ in range(24):
        a = rng.randrange(2, n - 1)
        x = pow(a, d, n)
        if x in (1, n - 1):
            continue
        for _ in range(s - 1):
            x = x * x % n
            if x == n - 1:
                break
        else:
            return False
    return True


def gen_prime(bits, rng):
    while True:
        p = rng.getrandbits(bits) | (1 << (bits - 1)) | (1 << (bits - 2)) | 1
        if p % 65537 != 1 and is_prime(p, rng):
            return p


def i2b(n):
    return n.to_bytes((n.bit_length() + 7) // 8, "big")


def small_rsa():
    if os.path.exists(SMALL):
        return json.load(open(SMALL))
    rng = random.Random(20260930)
    out = {}
    for bits in (512, 768, 1024, 1536, 2040, 2048):
        while True:
            p, q = gen_prime(bits // 2, rng), gen_prime(bits - bits // 2, rng)
            n = p * q
            if n.bit_length() == bits and p != q:
                break
        e = 65537
        d = pow(e, -1, (p - 1) * (q - 1))
        out[str(bits)] = {"kty": "RSA", "n": G.b64u(i2b(n)), "e": G.b64u(i2b(e)), "d": G.b64u(i2b(d)), "p": G.b64u(i2b(p)), "q": G.b64u(i2b(q)),
                          "dp": G.b64u(i2b(d % (p - 1))), "dq": G.b64u(i2b(d % (q - 1))), "qi": G.b64u(i2b(pow(q, -1, p)))}
    os.makedirs(os.path.dirname(SMALL), exist_ok=True)
    json.dump(out, open(SMALL, "w"), indent=0, sort_keys=True)
    return out


DI = {"RS256": (bytes.fromhex("3031300d060960864801650304020105000420"), hashlib.sha256),
      "RS384": (bytes.fromhex("3041300d060960864801650304020205000430"), hashlib.sha384),
      "RS512": (bytes.fromhex("3051300d060960864801650304020305000440"), hashlib.sha512)}


def rs_sign(key, alg, msg):
    n = int.from_bytes(G.b64d(key["n"]), "big")
    d = int.from_bytes(G.b64d(key["d"]), "big")
    k = (n.bit_length() + 7) // 8
    pre, h = DI[alg]
    t = pre + h(msg).digest()
    if k < len(t) + 11:
        return None
    em = b"\x00\x01" + b"\xff" * (k - len(t) - 3) + b"\x00" + t
    return pow(int.from_bytes(em, "big"), d, n).to_bytes(k, "big")


PSH = {"PS256": hashlib.sha256, "PS384": hashlib.sha384, "PS512": hashlib.sha512}


def ps_sign(key, alg, msg, salt):
    """RSASSA-PSS (RFC 8017 9.1.1 / 8.1.1) with MGF1 over the same hash and a salt as long as the digest (what JWA
    demands); None when the modulus is too short for the encoding"""
    h = PSH[alg]
    n = int.from_bytes(G.b64d(key["n"]), "big")
    d = int.from_bytes(G.b64d(key["d"]), "big")
    embits = n.bit_length() - 1
    emlen = (embits + 7) // 8
    mh = h(msg).digest()
    hl = len(mh)
    if emlen < hl + len(salt) + 2:
        return None
    H = h(bytes(8) + mh + salt).digest()
    db = bytes(emlen - len(salt) - hl - 2) + b"\x01" + salt
    mask, c = b"", 0
    while len(mask) < len(db):
        mask += h(H + c.to_bytes(4, "big")).digest()
        c += 1
    mdb = bytearray(x ^ y for x, y in zip(db, mask))
    mdb[0] &= 0xFF >> (8 * emlen - embits)
    em = bytes(mdb) + H + b"\xbc"
    return pow(int.from_bytes(em, "big"), d, n).to_bytes((n.bit_length() + 7) // 8, "big")


def run_rsa(ctx):
    keys = small_rsa()
    pay = G.b64u(b"payload")
    ops = []
    for bits, key in sorted(keys.items(), key=lambda kv: int(kv[0])):
        nbytes = len(G.b64d(key["n"]))
        bad = nbytes < 256
        flag = "_refuse" if bad else "_accept"
        pub = K.public(key)
        for alg in G.RSA:
            why = "a %s-bit RSA key for %s" % (bits, alg)
            ops.append(("jws.sig", {"jws": {"payload": pay}, "sig": {"protected": {"alg": alg}}, "jwk": key, flag: True, "_site": "rsa:modulus", "_why": why + " (sign)"}))
            if alg in DI or alg in PSH:
                prot = G.enc({"alg": alg})
                s = rs_sign(key, alg, (prot + "." + pay).encode()) if alg in DI else \
                    ps_sign(key, alg, (prot + "." + pay).encode(), ctx.rng.randbytes(PSH[alg]().digest_size))
                if s is not None:
                    tok = {"payload": pay, "protected": prot, "signature": G.b64u(s)}
                    for k2, kw in ((pub, "public"), (key, "private")):
                        ops.append(("jws.ver", {"jws": tok, "jwk": k2, "all": False, flag: True, "_site": "rsa:modulus",
                                                "_why": why + " (verify with the %s key, genuine signature)" % kw}))
    # the same small moduli with leading zero octets in "n" (and in the other members): the *modulus* decides,
    # not the length of its encoding (a 1024-bit modulus padded to 256 or 512 bytes is still a 1024-bit key)
    for bits, key in sorted(keys.items(), key=lambda kv: int(kv[0])):
        nbytes = len(G.b64d(key["n"]))
        if nbytes >= 256:
            continue
        for padto in (256, 257, 512):
            padded = dict(key, n=G.b64u(b"\0" * (padto - nbytes) + G.b64d(key["n"])))
            for alg in ("RS256", "PS256", "RS512"):
                why = "a %s-bit RSA modulus written with %d leading zero octets, %s" % (bits, padto - nbytes, alg)
                ops.append(("jws.sig", {"jws": {"payload": pay}, "sig": {"protected": {"alg": alg}}, "jwk": padded, "_refuse": True, "_site": "rsa:modulus", "_why": why + " (sign)"}))
                if alg in DI:
                    prot = G.enc({"alg": alg})
                    sg = rs_sign(key, alg, (prot + "." + pay).encode())
                    if sg is not None:
                        tok = {"payload": pay, "protected": prot, "signature": G.b64u(sg)}
                        ops.append(("jws.ver", {"jws": tok, "jwk": K.public(padded), "all": False, "_refuse": True, "_site": "rsa:modulus",
                                                "_why": why + " (verify, genuine signature)"}))
    # a private member that is present but is not decodable text is not "absent": the key is refused as a whole
    big = K.pool(ctx.jose)["RSA-2048"]
    for m in ("d", "p", "dq", "n"):
        for junk in ("!!", "A", 5, None, ["AA"]):
            bad = dict(big, **{m: junk})
            ops.append(("jws.sig", {"jws": {"payload": pay}, "sig": {"protected": {"alg": "RS256"}}, "jwk": bad, "_refuse": True, "_site": "rsa:member-undecodable",
                                    "_why": "RSA key whose %s is %s (sign)" % (m, json.dumps(junk))}))
    real, model = cmp(ctx, ops, mask)
    # whatever jose signs with an admissible key must verify (and tokens it made with small keys do not exist)
    ctx.count("rsa-sizes", len(keys))


# ---------------------------------------------------------------- EC

def ec_variants(name, key, other, foreign):
    """(label, jwk, invalid?) — invalid is decided by the independent arithmetic"""
    c = EC.CURVES[key["crv"]]
    L = c["len"]
    x, y = EC.point(key)
    d = EC.scalar(key)
    def mk(x_, y_, d_=None, crv=None, width=None):
        w = width or L
        j = {"kty": "EC", "crv": crv or key["crv"], "x": G.b64u(x_.to_bytes(max(w, (x_.bit_length() + 7) // 8), "big")),
             "y": G.b64u(y_.to_bytes(max(w, (y_.bit_length() + 7) // 8), "big"))}
        if d_ is not None:
            j["d"] = G.b64u(d_.to_bytes(max(w, (d_.bit_length() + 7) // 8), "big"))
        return j
    ox, oy = EC.point(other)
    fx, fy = EC.point(foreign)
    vs = [("genuine", mk(x, y, d)), ("genuine public", mk(x, y)),
          ("y+1", mk(x, (y + 1) % c["p"], d)), ("y+1 public", mk(x, (y + 1) % c["p"])),
          ("x+1", mk((x + 1) % c["p"], y, d)), ("x+1 public", mk((x + 1) % c["p"], y)),
          ("origin", mk(0, 0)), ("origin with d", mk(0, 0, d)),
          ("negated point with d", mk(x, (-y) % c["p"], d)), ("negated point public", mk(x, (-y) % c["p"])),
          ("another key's point with this d", mk(ox, oy, d)),
          ("d+1", mk(x, y, d + 1)), ("d=0", mk(x, y, 0)), ("d=n", mk(x, y, c["n"])), ("d=n+d", mk(x, y, c["n"] + d)),
          ("coordinates of a %s key" % foreign["crv"], {"kty": "EC", "crv": key["crv"], "x": foreign["x"], "y": foreign["y"]}),
          ("leading zero added", mk(x, y, d, width=L + 1))]
    for crv in ("P-192", "P-224", "p-256", "P-256 ", "", "secp256r1", "X25519", "P-257"):
        vs.append(("curve name %r" % crv, dict(mk(x, y, d), crv=crv)))
    out = []
    for label, j in vs:
        invalid = (j["crv"] not in EC.CURVES) or not EC.valid_key(dict(j, x=G.b64u((EC.point(j)[0] % c["p"]).to_bytes(L + 2, "big")),
                                                                        y=G.b64u((EC.point(j)[1] % c["p"]).to_bytes(L + 2, "big"))))
        out.append((label, j, invalid))
    return out


def run_ec(ctx):
    rng = ctx.rng
    pool = K.pool(ctx.jose)
    pay = G.b64u(b"payload")
    pairs = [("EC-P256", "EC-P256-b", "EC-P384"), ("EC-P384", "EC-P384-b", "EC-P256"), ("EC-P521", "EC-P521-b", "EC-P256"), ("EC-K256", "EC-P256", "EC-P256")]
    ops = []
    # a genuine signature / JWE per key, made with the valid key by the implementation itself
    mk = []
    for name, oth, forn in pairs:
        alg = G.ES[name]
        mk.append(("jws.sig", {"jws": {"payload": pay}, "sig": {"protected": {"alg": alg}}, "jwk": pool[name]}))
    sigs = ctx.real(mk)
    mk2 = [("jwe.enc", {"jwe": {"protected": {"alg": "ECDH-ES+A128KW", "enc": "A128GCM"}}, "jwk": pool[name], "pt": "00", "rand": rng.randbytes(120).hex()})
           for name, _, _ in pairs[:3]]
    jwes = ctx.real(mk2)
    for i, (name, oth, forn) in enumerate(pairs):
        alg = G.ES[name]
        tok = sigs[i].get("jws")
        peer = pool[oth] if pool[oth]["crv"] == pool[name]["crv"] else pool[name]
        for label, j, invalid in ec_variants(name, pool[name], pool[oth] if pool[oth]["crv"] == pool[name]["crv"] else pool[name + "-b"] if name + "-b" in pool else pool[name], pool[forn]):
            flag = {"_refuse": True} if invalid else {}
            why = "an EC key with %s on %s" % (label, pool[name]["crv"])
            base = {"_site": "ec:invalid-key", **flag}
            acc = {} if invalid else {"_accept": True}
            if "d" in j:
                ops.append(("jws.sig", {"jws": {"payload": pay}, "sig": {"protected": {"alg": alg}}, "jwk": j, "_why": why + " (sign)", **base, **acc}))
                ops.append(("jwk.exc", {"prv": j, "pub": K.public(peer), "_why": why + " (exchange, local key)", **base}))
            if tok:
                ops.append(("jws.ver", {"jws": tok, "jwk": j, "all": False, "_why": why + " (verify)", **base,
                                        **({"_accept": True} if not invalid and "negated" not in label else {})}))
            ops.append(("jwk.exc", {"prv": peer, "pub": K.public(j) if "d" in j else j, "_why": why + " (exchange, remote key)",
                                    "_site": "ec:invalid-key", **({"_refuse": True} if (j["crv"] not in EC.CURVES or not EC.valid_key(pub_mod(j))) else {})}))
            ops.append(("jwk.exc", {"prv": dict(peer, alg="ECMR"), "pub": dict(K.public(j) if "d" in j else j, alg="ECMR"), "_why": why + " (ECMR, remote key)",
                                    "_site": "ec:invalid-key", **({"_refuse": True} if (j["crv"] not in EC.CURVES or not EC.valid_key(pub_mod(j))) else {})}))
            if "d" in j:
                # the remote key handed over together with its private value: an inconsistent d is refused there too
                ops.append(("jwk.exc", {"prv": peer, "pub": j, "_why": why + " (exchange, remote key given with its d)", **base}))
                ops.append(("jwk.exc", {"prv": dict(peer, alg="ECMR"), "pub": dict(j, alg="ECMR"), "_why": why + " (ECMR, remote key given with its d)", **base}))
                if i < 3:
                    ops.append(("jwe.enc", {"jwe": {"protected": {"alg": "ECDH-ES", "enc": "A128GCM"}}, "jwk": j, "pt": "00", "rand": rng.randbytes(120).hex(),
                                            "_why": why + " (ECDH-ES wrap to this key, given with its d)", **base}))
            if i < 3:
                pubj = K.public(j) if "d" in j else j
                ops.append(("jwe.enc", {"jwe": {"protected": {"alg": "ECDH-ES", "enc": "A128GCM"}}, "jwk": pubj, "pt": "00", "rand": rng.randbytes(120).hex(),
                                        "_why": why + " (ECDH-ES wrap to this key)", "_site": "ec:invalid-key",
                                        **({"_refuse": True} if (j["crv"] not in EC.CURVES or not EC.valid_key(pub_mod(j))) else {})}))
                if jwes[i].get("ok") and "d" in j:
                    ops.append(("jwe.dec_jwk", {"jwe": jwes[i]["jwe"], "jwk": j, "rand": "00" * 64, "_why": why + " (ECDH-ES unwrap)", **base}))
        # the ephemeral key of a received JWE may be invalid too
        if i < 3 and jwes[i].get("ok"):
            t = jwes[i]["jwe"]
            c = EC.CURVES[pool[name]["crv"]]
            for label, fn in (("epk.y+1", lambda e: dict(e, y=G.b64u(((EC.point(e)[1] + 1) % c["p"]).to_bytes(c["len"], "big")))),
                              ("epk at the origin", lambda e: dict(e, x=G.b64u(bytes(c["len"])), y=G.b64u(bytes(c["len"])))),
                              ("epk on another curve", lambda e: dict(K.public(pool[forn]))),
                              ("epk curve renamed", lambda e: dict(e, crv=pool[forn]["crv"]))):
                t2 = copy.deepcopy(t)
                t2["header"]["epk"] = fn(t2["header"]["epk"])
                ops.append(("jwe.dec_jwk", {"jwe": t2, "jwk": pool[name], "rand": "00" * 64, "_refuse": True, "_site": "ec:invalid-epk", "_why": label + " on " + pool[name]["crv"]}))
    # DIRECT key agreement (no key wrap behind it whose integrity check would hide a wrong agreement): an invalid ephemeral
    # key, or a recipient key whose d does not belong to its point, must make the unwrap fail - it must not fall back to
    # anything derivable from public values
    mkd = [("jwe.enc", {"jwe": {"protected": {"alg": "ECDH-ES", "enc": "A128GCM"}}, "jwk": pool[name], "pt": "00", "rand": rng.randbytes(120).hex()}) for name, _, _ in pairs]
    for i, ((name, oth, forn), r) in enumerate(zip(pairs, ctx.real(mkd))):
        if not r.get("ok"):
            continue
        t = r["jwe"]
        good = pool[name]
        c = EC.CURVES[good["crv"]]
        e0 = t["header"]["epk"]
        ops.append(("jwe.dec_jwk", {"jwe": t, "jwk": good, "rand": "00" * 64, "_accept": True, "_site": "ec:invalid-epk", "_why": "direct ECDH-ES, genuine (%s)" % good["crv"]}))
        for label, e2 in (("epk.y+1", dict(e0, y=G.b64u(((EC.point(e0)[1] + 1) % c["p"]).to_bytes(c["len"], "big")))),
                          ("epk.x+1", dict(e0, x=G.b64u(((EC.point(e0)[0] + 1) % c["p"]).to_bytes(c["len"], "big")))),
                          ("epk at the origin", dict(e0, x=G.b64u(bytes(c["len"])), y=G.b64u(bytes(c["len"])))),
                          ("epk.y undecodable", dict(e0, y="!!")), ("epk without y", {k_: v_ for k_, v_ in e0.items() if k_ != "y"})):
            t2 = copy.deepcopy(t)
            t2["header"]["epk"] = e2
            ops.append(("jwe.dec_jwk", {"jwe": t2, "jwk": good, "rand": "00" * 64, "_refuse": True, "_site": "ec:invalid-epk", "_why": "direct ECDH-ES, %s on %s" % (label, good["crv"])}))
            ops.append(("jwe.dec", {"jwe": t2, "jwk": good, "rand": "00" * 64, "_refuse": True, "_site": "ec:invalid-epk", "_why": "direct ECDH-ES decrypt, %s on %s" % (label, good["crv"])}))
        dbad = dict(good, d=G.b64u(((EC.scalar(good) + 1) % c["n"]).to_bytes(len(G.b64d(good["d"])), "big")))
        ops.append(("jwe.dec_jwk", {"jwe": t, "jwk": dbad, "rand": "00" * 64, "_refuse": True, "_site": "ec:invalid-key", "_why": "direct ECDH-ES, recipient d+1 on %s" % good["crv"]}))
    # a member that is present but is not decodable text is not read as absent (EC twin of the RSA rule): verification
    # and exchange with such a key fail
    for i, (name, oth, forn) in enumerate(pairs):
        tok = sigs[i].get("jws")
        good = pool[name]
        peer = pool[oth] if pool[oth]["crv"] == good["crv"] else good
        for m in ("d", "x", "y"):
            for junk in ("!!", "A", 5, [], None):
                j = dict(good, **{m: junk})
                why = "an EC key whose %s is %r" % (m, junk)
                if tok:
                    ops.append(("jws.ver", {"jws": tok, "jwk": j, "all": False, "_refuse": True, "_site": "ec:member-undecodable", "_why": why + " (verify)"}))
                ops.append(("jwk.exc", {"prv": peer, "pub": j, "_refuse": True, "_site": "ec:member-undecodable", "_why": why + " (exchange, remote key)"}))
                ops.append(("jws.sig", {"jws": {"payload": pay}, "sig": {"protected": {"alg": G.ES[name]}}, "jwk": j, "_refuse": True, "_site": "ec:member-undecodable", "_why": why + " (sign)"}))
    # every ECDSA algorithm with a key of every curve: only the algorithm's own curve is admitted, whoever names the
    # algorithm (protected header, unprotected header, or the key's own "alg" - a key that claims ES256 while lying on
    # P-521 is refused like any other).  The token to verify is signed by an independent ECDSA over that very key with
    # the algorithm's hash, so that only the curve rule can refuse it.
    algcrv = {"ES256": ("P-256", hashlib.sha256), "ES384": ("P-384", hashlib.sha384), "ES512": ("P-521", hashlib.sha512), "ES256K": ("secp256k1", hashlib.sha256)}
    n0 = len(ops)
    for alg, (crv, hf) in algcrv.items():
        for kn in ("EC-P256", "EC-P384", "EC-P521", "EC-K256"):
            key = pool[kn]
            mism = key["crv"] != crv
            for claim in (False, True):
                j = dict(key, alg=alg) if claim else key
                for place in ("protected", "header") + (("key",) if claim else ()):
                    sigt = {} if place == "key" else {place: {"alg": alg}}
                    flag = {"_refuse": True} if mism else {"_accept": True}
                    why = "a %s key%s for %s named by the %s" % (key["crv"], " declaring alg=%s" % alg if claim else "", alg, place)
                    ops.append(("jws.sig", {"jws": {"payload": pay}, "sig": sigt, "jwk": j, "_site": "ec:curve-mismatch", "_why": why + " (sign)", **flag}))
                    prot = G.enc({"alg": alg}) if place == "protected" else None
                    signed = ((prot or "") + "." + pay).encode()
                    sg = EC.ecdsa_sign(key, hf(signed).digest(), int.from_bytes(rng.randbytes(70), "big"))
                    tok = {"payload": pay, "signature": G.b64u(sg)}
                    if prot:
                        tok["protected"] = prot
                    if place == "header":
                        tok["header"] = {"alg": alg}
                    ops.append(("jws.ver", {"jws": tok, "jwk": K.public(j), "all": False, "_site": "ec:curve-mismatch", "_why": why + " (verify, signature valid under that key)", **flag}))
    ctx.count("ecdsa alg x curve cases", len(ops) - n0)
    cmp(ctx, ops, mask)
    ctx.count("ec-variants", len(ops))


def pub_mod(j):
    """public part with coordinates reduced modulo p (what the library's bignum import does)"""
    if j.get("crv") not in EC.CURVES:
        return j
    c = EC.CURVES[j["crv"]]
    x, y = EC.point(j)
    return {"kty": "EC", "crv": j["crv"], "x": G.b64u((x % c["p"]).to_bytes(c["len"] + 2, "big")), "y": G.b64u((y % c["p"]).to_bytes(c["len"] + 2, "big"))}


# ---------------------------------------------------------------- symmetric

def run_sym(ctx):
    rng = ctx.rng
    ops = []
    for enc in E.ENCS:
        need = E.CEKLEN[enc]
        good = {"kty": "oct", "k": G.b64u(rng.randbytes(need))}
        tokr = ctx.real([("jwe.enc_cek", {"jwe": {"protected": {"enc": enc}}, "cek": good, "pt": "aabb", "rand": "33" * 16})])[0]
        for n in list(range(0, 71)) + [128, 1024, 1025]:
            cek = {"kty": "oct", "k": G.b64u(rng.randbytes(n))} if n != need else good
            flag = "_accept" if n == need else "_refuse"
            why = "a %d-byte content key for %s" % (n, enc)
            ops.append(("jwe.enc_cek", {"jwe": {"protected": {"enc": enc}}, "cek": cek, "pt": "aabb", "rand": "33" * 16, flag: True, "_site": "cek:length", "_why": why + " (encrypt)"}))
            if tokr.get("ok"):
                ops.append(("jwe.dec_cek", {"jwe": tokr["jwe"], "cek": cek, flag: True, "_site": "cek:length", "_why": why + " (decrypt)"}))
            # direct key agreement: the key is the content key
            ops.append(("jwe.enc", {"jwe": {"protected": {"alg": "dir", "enc": enc}}, "jwk": cek, "pt": "aabb", "rand": "33" * 16, flag: True,
                                    "_site": "dir:length", "_why": "a %d-byte direct key for %s" % (n, enc)}))
    for w, need in E.KW.items():
        good = {"kty": "oct", "k": G.b64u(rng.randbytes(need))}
        tokr = ctx.real([("jwe.enc", {"jwe": {"protected": {"alg": w, "enc": "A128GCM"}}, "jwk": good, "pt": "aabb", "rand": rng.randbytes(100).hex()})])[0]
        for n in list(range(0, 41)) + [48, 64, 1024, 1025]:
            key = {"kty": "oct", "k": G.b64u(rng.randbytes(n))} if n != need else good
            flag = "_accept" if n == need else "_refuse"
            why = "a %d-byte key for %s" % (n, w)
            ops.append(("jwe.enc", {"jwe": {"protected": {"alg": w, "enc": "A128GCM"}}, "jwk": key, "pt": "aabb", "rand": rng.randbytes(100).hex(), flag: True,
                                    "_site": "kw:length", "_why": why + " (wrap)"}))
            if tokr.get("ok"):
                ops.append(("jwe.dec_jwk", {"jwe": tokr["jwe"], "jwk": key, "rand": "00" * 64, flag: True, "_site": "kw:length", "_why": why + " (unwrap)"}))
    # consuming side with keys DERIVED from the genuine one (zero-padded, truncated, one byte appended): a unwrap or
    # decryption that silently truncates or pads the key would succeed with them; random wrong-length keys fail anyway
    for w, need in E.KW.items():
        good = {"kty": "oct", "k": G.b64u(rng.randbytes(need - 8) + bytes(8))}        # ends in zero bytes: truncation-equivalent variants exist
        tokr = ctx.real([("jwe.enc", {"jwe": {"protected": {"alg": w, "enc": "A128GCM"}}, "jwk": good, "pt": "aabb", "rand": rng.randbytes(100).hex()})])[0]
        gb = G.b64d(good["k"])
        if tokr.get("ok"):
            for label, kb in (("zero-padded by 8", gb + bytes(8)), ("zero-padded by 1", gb + b"\0"), ("its first %d bytes" % (need - 8), gb[:need - 8]), ("one byte appended", gb + b"x"),
                              ("doubled", gb + gb)):
                ops.append(("jwe.dec_jwk", {"jwe": tokr["jwe"], "jwk": {"kty": "oct", "k": G.b64u(kb)}, "rand": "00" * 64, "_refuse": True, "_site": "kw:length",
                                            "_why": "the genuine %s key %s (unwrap)" % (w, label)}))
    for enc in E.ENCS:
        need = E.CEKLEN[enc]
        gb = rng.randbytes(need - 8) + bytes(8)
        good = {"kty": "oct", "k": G.b64u(gb)}
        tokr = ctx.real([("jwe.enc_cek", {"jwe": {"protected": {"enc": enc}}, "cek": good, "pt": "aabb", "rand": "33" * 16})])[0]
        tokd = ctx.real([("jwe.enc", {"jwe": {"protected": {"alg": "dir", "enc": enc}}, "jwk": dict(good, alg=enc), "pt": "aabb", "rand": "33" * 16})])[0]
        for label, kb in (("zero-padded by 8", gb + bytes(8)), ("zero-padded by 1", gb + b"\0"), ("its first %d bytes" % (need - 8), gb[:need - 8]), ("doubled", gb + gb)):
            if tokr.get("ok"):
                ops.append(("jwe.dec_cek", {"jwe": tokr["jwe"], "cek": {"kty": "oct", "k": G.b64u(kb)}, "_refuse": True, "_site": "cek:length",
                                            "_why": "the genuine %s content key %s (decrypt)" % (enc, label)}))
            if tokd.get("ok"):
                ops.append(("jwe.dec", {"jwe": tokd["jwe"], "jwk": {"kty": "oct", "k": G.b64u(kb), "alg": enc}, "rand": "00" * 64, "_refuse": True, "_site": "dir:length",
                                        "_why": "the genuine direct key for %s %s (decrypt)" % (enc, label)}))
        if tokd.get("ok"):
            ops.append(("jwe.dec", {"jwe": tokd["jwe"], "jwk": dict(good, alg=enc), "rand": "00" * 64, "_accept": True, "_site": "dir:length", "_why": "the genuine direct key for %s" % enc}))
    # RFC 3394 key data: at least two 64-bit blocks and a whole number of them; wrapped text is 8 bytes longer.  A content
    # key the caller supplies (jose_jwe_enc_jwk) of any other length must not be wrapped, an "encrypted_key" of any
    # other length must not unwrap - with every algorithm that ends in AES key wrap
    pool = K.pool(ctx.jose)
    kwlike = [(w, {"kty": "oct", "k": G.b64u(rng.randbytes(n_))}, {}) for w, n_ in E.KW.items() if "GCM" not in w]
    kwlike += [("ECDH-ES+A128KW", pool["EC-P256"], {}), ("ECDH-ES+A256KW", pool["EC-P521"], {}),
               ("PBES2-HS256+A128KW", {"kty": "oct", "k": G.b64u(b"password")}, {"p2c": 1000})]
    for w, key, extra in kwlike:
        prot = dict({"alg": w, "enc": "A128GCM"}, **extra)
        tokr = ctx.real([("jwe.enc", {"jwe": {"protected": prot}, "jwk": key, "pt": "aabb", "rand": rng.randbytes(200).hex()})])[0]
        for n in list(range(0, 42)) + [48, 64, 1024]:
            good = n >= 16 and n % 8 == 0
            flag = "_accept" if good else "_refuse"
            ops2 = ("jwe.enc_jwk", {"jwe": {"protected": prot}, "rcp": {}, "jwk": key, "cek": {"kty": "oct", "k": G.b64u(rng.randbytes(n))},
                                    "rand": rng.randbytes(200).hex(), flag: True, "_site": "kw:data-length",
                                    "_why": "%d bytes of key data under %s (wrap)" % (n, w)})
            ops.append(ops2)
            if tokr.get("ok") and not good or n == 0:
                t2 = json.loads(json.dumps(tokr["jwe"]))
                t2["encrypted_key"] = G.b64u(rng.randbytes(n))
                ops.append(("jwe.dec_jwk", {"jwe": t2, "jwk": key, "rand": "00" * 64, "_refuse": True, "_site": "kw:data-length",
                                            "_why": "a %d-byte encrypted_key under %s (unwrap)" % (n, w)}))
    cmp(ctx, ops, mask)


def run(ctx):
    run_hmac(ctx)
    run_rsa(ctx)
    run_ec(ctx)
    run_sym(ctx)


def replay(ctx, rp):
    ctx.compare(rp.get("ops", []), None, None)
