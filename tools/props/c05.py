"""C05 — key restrictions: alg, use, key_ops."""
import itertools, json

ID = "C05"
RULE = ("jwk.prm exhaustively over all subsets of the eight key_ops names plus three junk elements (2^11), use in "
        "{absent, sig, enc, other, non-string, null}, 10 requested operations, both 'required' modes, plus non-array "
        "key_ops and non-object keys; algorithm-mismatch: every ordered pair of registered names of the relevant kind "
        "plus names sorting before/between/after, through every key-consuming entry point; distinct = distinct "
        "(op,args); non-trivial = key carries metadata")
EXPLANATION = "prm decision and algorithm-selection logic proved on the model; exhaustive differential on the finite part."
ASSUMPTIONS = ["a 'use' member that is not a string is malformed metadata: refusing is accepted, granting is checked"]
BUDGET = {"quick": 400, "thorough": 2000}

OPS = ["sign", "verify", "encrypt", "decrypt", "wrapKey", "unwrapKey", "deriveKey", "deriveBits"]
SIG = {"sign", "verify"}
ENC = {"encrypt", "decrypt", "wrapKey", "unwrapKey"}


def statement_grant(jwk, req, op):
    """the grant decision exactly as the property states it (None = statement does not decide)"""
    if not isinstance(jwk, dict):
        return None
    use = jwk.get("use", "ABSENT") if "use" in jwk else "ABSENT"
    ko = jwk.get("key_ops") if "key_ops" in jwk else "ABSENT"
    if use == "ABSENT" and ko == "ABSENT":
        return not req
    listed = isinstance(ko, list) and any(isinstance(e, str) and e == op for e in ko)
    if use != "ABSENT" and not isinstance(use, str):
        return ("at-most", listed)
    g = listed or (use == "sig" and op in SIG) or (use == "enc" and op in ENC)
    return g


def p_check(op, args, real):
    if op != "jwk.prm" or "crash" in real:
        return None
    if args.get("op") is None:
        return None
    exp = statement_grant(args.get("jwk"), args.get("req", False), args["op"])
    if exp is None:
        return None
    if isinstance(exp, tuple):
        if real["r"] and not exp[1]:
            return ("prm:grant", "granted although not listed: " + json.dumps(args))
        return None
    if real["r"] != exp:
        return ("prm:" + ("grant" if real["r"] else "refuse"), "prm=%s but the documented decision is %s for %s" % (
            real["r"], exp, json.dumps(args)))
    return None


def nontrivial(op, args, real):
    j = args.get("jwk")
    return json.dumps(args, sort_keys=True) if isinstance(j, dict) and ("use" in j or "key_ops" in j) else None


def gen_prm(ctx):
    ops = []
    elems = OPS + [7, None, "bogus"]
    uses = ["ABSENT", "sig", "enc", "other", 3, None]
    reqops = OPS + ["bogus", ""]
    for mask in range(1 << len(elems)):
        ko = [e for i, e in enumerate(elems) if mask >> i & 1]
        for use in uses:
            jwk = {"kty": "oct"}
            if use != "ABSENT":
                jwk["use"] = use
            jwk["key_ops"] = ko
            # to keep the exhaustive product tractable, requested operations alternate by mask
            for ro in (reqops if mask % 8 == 0 or ctx.tier == "thorough" else [reqops[mask % len(reqops)], reqops[(mask // 3) % len(reqops)]]):
                for req in (False, True):
                    ops.append(("jwk.prm", {"jwk": jwk, "req": req, "op": ro}))
    # keys without key_ops, odd shapes
    for use in uses:
        for ko in ("ABSENT", "sign", 5, {}, {"sign": 1}, [["sign"]], None, True):
            jwk = {"kty": "oct"}
            if use != "ABSENT":
                jwk["use"] = use
            if ko != "ABSENT":
                jwk["key_ops"] = ko
            for ro in reqops:
                for req in (False, True):
                    ops.append(("jwk.prm", {"jwk": jwk, "req": req, "op": ro}))
    # near-miss spellings: names are compared exactly (letter case, surrounding blanks, prefixes and longer words are other names)
    for use in ("SIG", "Sig", "ENC", "Enc", "sig ", " enc", "si", "signature", ""):
        for ro in reqops:
            for req in (False, True):
                ops.append(("jwk.prm", {"jwk": {"kty": "oct", "use": use}, "req": req, "op": ro}))
    for ko in (["Sign"], ["SIGN"], ["sign "], [" sign"], ["sig"], ["signing"], ["Verify", "ENCRYPT"], ["wrapkey"], ["WrapKey"], ["derivekey"], [""]):
        for use in ("ABSENT", "sig", "enc"):
            jwk = dict({"kty": "oct", "key_ops": ko}, **({} if use == "ABSENT" else {"use": use}))
            for ro in reqops:
                for req in (False, True):
                    ops.append(("jwk.prm", {"jwk": jwk, "req": req, "op": ro}))
    for j in (None, 5, "str", [], [{"use": "sig"}], True):
        for req in (False, True):
            ops.append(("jwk.prm", {"jwk": j, "req": req, "op": "sign"}))
            ops.append(("jwk.prm", {"req": req, "op": "sign"}))
            ops.append(("jwk.prm", {"jwk": j, "req": req}))
    ops.append(("jwk.prm", {"jwk": {"use": "sig"}, "req": True}))
    # duplicates and ordering
    ops.append(("jwk.prm", {"jwk": {"key_ops": ["verify", "verify", "sign"]}, "req": True, "op": "sign"}))
    return ops


def run_nul(ctx):
    """names that differ from the demanded one only behind an embedded NUL character (values a caller can build with
    JSON_ALLOW_NUL or json_stringn; the command-line tool cannot).  The property compares names as JSON strings; the
    library compares them as C strings.  Evaluated on the implementation only, judged by the property."""
    import keys as K, jwsgen as G
    pool = K.pool(ctx.jose)
    k = pool["oct-32"]
    pay = G.b64u(b"nul")
    tok = ctx.real([("jws.sig", {"jws": {"payload": pay}, "sig": {"protected": {"alg": "HS256"}}, "jwk": k})])[0]
    ops = [("jwk.prm", {"jwk": dict(k, key_ops=["sign\u0000x"]), "op": "sign", "req": True, "_why": "key_ops [\"sign\\0x\"] grants sign"}),
           ("jwk.prm", {"jwk": dict(k, use="sig\u0000x"), "op": "sign", "req": True, "_why": "use \"sig\\0x\" grants sign"}),
           ("jwk.prm", {"jwk": dict(k, use="enc\u0000x"), "op": "encrypt", "req": True, "_why": "use \"enc\\0x\" grants encrypt"}),
           ("jws.sig", {"jws": {"payload": pay}, "sig": {"protected": {"alg": "HS256"}}, "jwk": dict(k, alg="HS256\u0000x"), "_why": "key declaring alg \"HS256\\0x\" signs with HS256"}),
           ("jws.sig", {"jws": {"payload": pay}, "sig": {"protected": {"alg": "HS256"}}, "jwk": dict(k, alg="HS384\u0000"), "_why": "control: key declaring alg \"HS384\\0\" with HS256"})]
    if tok.get("ok"):
        ops.append(("jws.ver", {"jws": tok["jws"], "jwk": dict(k, alg="HS256\u0000x"), "all": False, "_why": "key declaring alg \"HS256\\0x\" verifies an HS256 token"}))
    sent = [(o, {a: v for a, v in args.items() if not a.startswith("_")}) for o, args in ops]
    for (o, a), r in zip(ops, ctx.real(sent)):
        ctx.evaluations += 1
        granted = r.get("r") if o in ("jwk.prm", "jws.ver") else r.get("ok")
        if granted and "control" not in a["_why"]:
            ctx.pfails.append(("nul:c-string-compare", "a name that differs only behind a NUL is taken for the name: %s" % a["_why"], o, sent[ops.index((o, a))][1], r))
        elif granted:
            ctx.pfails.append(("select:nul-control", "control case accepted: %s" % a["_why"], o, {}, r))
    ctx.count("nul-variants", len(ops))


def run(ctx):
    ops = gen_prm(ctx)
    for i in range(0, len(ops), 200000):
        ctx.compare(ops[i:i + 200000], p_check, nontrivial)
    ctx.exhaustive = True
    extra = globals().get("run_select")
    if extra:
        extra(ctx)
    run_nul(ctx)


def run_select(ctx):
    """algorithm mismatch and permission enforcement at every key-consuming entry point"""
    import keys as K, jwsgen as G, jwegen as E
    from jwsgen import b64u
    rng = ctx.rng
    pool = K.pool(ctx.jose)
    t = ctx.tables
    names = {k: [a["name"] for a in t["algs"] if a["kind"] == k] for k in ("sign", "wrap", "encr", "exch")}
    extra = ["AAA", "HS3", "zzz", "", "none"]
    ops, meta = [], []

    def add(op, args, halg, kalg, also=None, perm=None):
        ops.append((op, args))
        meta.append((halg, kalg, also, perm))

    def near(h):
        """names related to h as strings: prefixes, extensions, other case — a comparison that is not plain equality
        (ordering, prefix match, case-insensitive match) shows on one of them"""
        return [h[:-1], h[:len(h) // 2], h + "0", h + "-256", h + "+A128KW", h.lower(), h.upper() if h.upper() != h else h.swapcase(), " " + h, h + " "]

    # --- signing and verifying with an oct key that is long enough for every HS* ---
    key = pool["oct-64"]
    toks = {}
    mk = [("jws.sig", {"jws": {"payload": "cGF5"}, "sig": {"protected": {"alg": h}}, "jwk": key}) for h in ("HS256", "HS384", "HS512")]
    for (o, a), r in zip(mk, ctx.real(mk)):
        toks[a["sig"]["protected"]["alg"]] = r["jws"]
    for h in ("HS256", "HS384", "HS512"):
        for k in names["sign"] + extra + near(h):
            add("jws.sig", {"jws": {"payload": "cGF5"}, "sig": {"protected": {"alg": h}}, "jwk": dict(key, alg=k)}, h, k)
            add("jws.sig", {"jws": {"payload": "cGF5"}, "sig": {"header": {"alg": h}}, "jwk": dict(key, alg=k)}, h, k)
            add("jws.ver", {"jws": toks[h], "jwk": dict(key, alg=k)}, h, k)
            add("jws.ver", {"jws": toks[h], "jwk": [dict(key, alg=k)], "all": True}, h, k)
    # --- unwrapping: valid A128KW / dir / A128GCMKW tokens ---
    kw_key = pool["oct-16"]
    mk = [("jwe.enc", {"jwe": {"protected": {"alg": w, "enc": e}}, "jwk": kw_key if w != "dir" else dict(pool["oct-32"], alg=e), "pt": "00", "rand": "11" * 100})
          for w, e in (("A128KW", "A128CBC-HS256"), ("A128GCMKW", "A128GCM"), ("dir", "A128CBC-HS256"))]
    wt = {}
    for (o, a), r in zip(mk, ctx.real(mk)):
        wt[a["jwe"]["protected"]["alg"]] = (r["jwe"], a["jwe"]["protected"]["enc"], a["jwk"])
    # asymmetric families whose names are prefixes of one another (RSA-OAEP / RSA-OAEP-256, ECDH-ES / ECDH-ES+A128KW)
    mk = [("jwe.enc", {"jwe": {"protected": {"alg": w, "enc": "A128GCM"}}, "jwk": pool[kn], "pt": "00", "rand": "11" * 100})
          for w, kn in (("RSA-OAEP", "RSA-2048"), ("RSA-OAEP-256", "RSA-2048"), ("ECDH-ES", "EC-P256"), ("ECDH-ES+A128KW", "EC-P256"), ("RSA1_5", "RSA-2048"))]
    for (o, a), r in zip(mk, ctx.real(mk)):
        if r.get("ok"):
            wt[a["jwe"]["protected"]["alg"]] = (r["jwe"], "A128GCM", a["jwk"])
    for w, (tok, e, k0) in wt.items():
        for k in names["wrap"] + names["encr"] + extra + near(w) + near(e):
            add("jwe.dec_jwk", {"jwe": tok, "jwk": dict(k0, alg=k), "rand": "00" * 64}, w, k, also=e)
            add("jwe.dec", {"jwe": tok, "jwk": [dict(k0, alg=k)], "rand": "00" * 64}, w, k, also=e)
    # --- content encryption / decryption ---
    for e in names["encr"]:
        cek = {"kty": "oct", "k": b64u(rng.randbytes(E.CEKLEN[e]))}
        r = ctx.real([("jwe.enc_cek", {"jwe": {"protected": {"enc": e}}, "cek": cek, "pt": "00", "rand": "22" * 32})])[0]
        for k in names["encr"] + extra + near(e):
            add("jwe.enc_cek", {"jwe": {"protected": {"enc": e}}, "cek": dict(cek, alg=k), "pt": "00", "rand": "22" * 32}, e, k)
            add("jwe.enc_cek", {"jwe": {"unprotected": {"enc": e}}, "cek": dict(cek, alg=k), "pt": "00", "rand": "22" * 32}, e, k)
            add("jwe.dec_cek", {"jwe": r["jwe"], "cek": dict(cek, alg=k)}, e, k)
    # --- content encryption through the whole-call entry point with a direct key: the key's declared algorithm is the
    #     content encryption; every ordered pair, in particular pairs of equal key size (A256GCM / A128CBC-HS256) ---
    for e in names["encr"]:
        for k in names["encr"] + extra[:2] + near(e)[:3]:
            for klen in sorted({E.CEKLEN[e], E.CEKLEN.get(k, E.CEKLEN[e])}):
                dk = {"kty": "oct", "k": b64u(rng.randbytes(klen)), "alg": k}
                for place in ("protected", "unprotected"):
                    jwe = {"protected": {"alg": "dir"}}
                    jwe.setdefault(place, {})["enc"] = e
                    if klen == E.CEKLEN[e] or k != e:
                        add("jwe.enc", {"jwe": jwe, "jwk": dk, "pt": "00", "rand": "44" * 64}, e, k)
    # --- key exchange ---
    a, b = pool["EC-P256"], K.public(pool["EC-P256-b"])
    for x in names["exch"] + extra + near("ECDH"):
        for y in names["exch"] + extra + near("ECMR"):
            add("jwk.exc", {"prv": dict(a, alg=x), "pub": dict(b, alg=y)}, x, y)
    # --- permissions at every entry point: the operation each one demands ---
    perm_cases = [("use", "sig"), ("use", "enc"), ("use", "other"), ("key_ops", []), ("key_ops", ["sign"]), ("key_ops", ["verify"]),
                  ("key_ops", ["encrypt"]), ("key_ops", ["decrypt"]), ("key_ops", ["wrapKey"]), ("key_ops", ["unwrapKey"]),
                  ("key_ops", ["deriveKey"]), ("key_ops", ["deriveBits"])]
    cekA = {"kty": "oct", "k": b64u(rng.randbytes(16))}
    encA = ctx.real([("jwe.enc_cek", {"jwe": {"protected": {"enc": "A128GCM"}}, "cek": cekA, "pt": "00", "rand": "22" * 32})])[0]["jwe"]
    entry = [("jws.sig", lambda k: {"jws": {"payload": "cGF5"}, "sig": {"protected": {"alg": "HS256"}}, "jwk": dict(key, **k)}, "sign"),
             ("jws.ver", lambda k: {"jws": toks["HS256"], "jwk": dict(key, **k)}, "verify"),
             ("jwe.enc_jwk", lambda k: {"jwe": {"protected": {"alg": "A128KW", "enc": "A128GCM"}}, "jwk": dict(kw_key, **k), "cek": {}, "rand": "33" * 64}, "wrapKey"),
             ("jwe.dec_jwk", lambda k: {"jwe": wt["A128KW"][0], "jwk": dict(kw_key, **k), "rand": "00" * 64}, "unwrapKey"),
             ("jwe.enc_jwk", lambda k: {"jwe": {"protected": {"alg": "dir", "enc": "A128CBC-HS256"}}, "jwk": dict(wt["dir"][2], **k), "cek": {}, "rand": "33" * 64}, "encrypt"),
             ("jwe.dec_jwk", lambda k: {"jwe": wt["dir"][0], "jwk": dict(wt["dir"][2], **k), "rand": "00" * 64}, "decrypt"),
             ("jwe.enc_cek", lambda k: {"jwe": {"protected": {"enc": "A128GCM"}}, "cek": dict(cekA, **k), "pt": "00", "rand": "22" * 32}, "encrypt"),
             ("jwe.dec_cek", lambda k: {"jwe": encA, "cek": dict(cekA, **k)}, "decrypt"),
             ("jwk.exc", lambda k: {"prv": dict(a, **k), "pub": b}, "deriveKey"),
             ("jwk.exc", lambda k: {"prv": a, "pub": dict(b, **k)}, "deriveKey")]
    for op, build, need in entry:
        for m, v in perm_cases:
            add(op, build({m: v}), None, None, perm=(need, {m: v}))
    # --- the same rules where the names sit in the unprotected / per-recipient headers of the token handed in ---
    few = lambda h, kind: [h] + [n_ for n_ in names[kind] if n_ != h][:4] + near(h)[:4] + extra[:2]
    mk = [("jws.sig", {"jws": {"payload": "cGF5"}, "sig": {"header": {"alg": h}}, "jwk": key}) for h in ("HS256", "HS512")]
    for (o, a_), r in zip(mk, ctx.real(mk)):
        if r.get("ok"):
            h = a_["sig"]["header"]["alg"]
            for k in few(h, "sign"):
                add("jws.ver", {"jws": r["jws"], "jwk": dict(key, alg=k)}, h, k)
                add("jws.ver", {"jws": r["jws"], "jwk": {"keys": [dict(key, alg=k)]}, "all": False}, h, k)
                add("jws.ver", {"jws": {"payload": r["jws"]["payload"], "signatures": [{x: y for x, y in r["jws"].items() if x != "payload"}]}, "jwk": dict(key, alg=k)}, h, k)
    for place in ("unprotected", "recipient"):
        jwe = {"protected": {"enc": "A128CBC-HS256"}} if place == "recipient" else {"unprotected": {"alg": "A128KW", "enc": "A128CBC-HS256"}}
        a_ = {"jwe": jwe, "jwk": kw_key, "pt": "00", "rand": "11" * 100}
        if place == "recipient":
            a_["rcp"] = {"header": {"alg": "A128KW"}}
        r = ctx.real([("jwe.enc", a_)])[0]
        if r.get("ok"):
            for k in few("A128KW", "wrap") + ["A128CBC-HS256", "A256CBC-HS512"]:
                add("jwe.dec_jwk", {"jwe": r["jwe"], "jwk": dict(kw_key, alg=k), "rand": "00" * 64}, "A128KW", k, also="A128CBC-HS256")
                add("jwe.dec", {"jwe": r["jwe"], "jwk": {"keys": [dict(kw_key, alg=k)]}, "rand": "00" * 64}, "A128KW", k, also="A128CBC-HS256")
    cekU = {"kty": "oct", "k": b64u(rng.randbytes(16))}
    rU = ctx.real([("jwe.enc_cek", {"jwe": {"unprotected": {"enc": "A128GCM"}}, "cek": cekU, "pt": "00", "rand": "22" * 32})])[0]
    if rU.get("ok"):
        for k in few("A128GCM", "encr"):
            add("jwe.dec_cek", {"jwe": rU["jwe"], "cek": dict(cekU, alg=k)}, "A128GCM", k)
    # a general-form token with two recipients, the key declares an algorithm: only its own recipient's matters
    r2 = ctx.real([("jwe.enc", {"jwe": {"protected": {"enc": "A128GCM"}}, "rcp": [{"header": {"alg": "A128KW"}}, {"header": {"alg": "A256KW"}}],
                                "jwk": [kw_key, pool["oct-32"]], "pt": "00", "rand": "11" * 200})])[0]
    if r2.get("ok") and isinstance(r2["jwe"].get("recipients"), list):
        for i_, (kk, w) in enumerate(((kw_key, "A128KW"), (pool["oct-32"], "A256KW"))):
            for k in (w, "A128KW", "A256KW", "A192KW", "A128GCM"):
                add("jwe.dec_jwk", {"jwe": r2["jwe"], "rcp": r2["jwe"]["recipients"][i_], "jwk": dict(kk, alg=k), "rand": "00" * 64}, w, k, also="A128GCM")
    # --- asymmetric signing keys that declare another algorithm of their own family / of another family ---
    for kn, h, others in (("RSA-2048", "RS256", ["PS256", "RS384", "RS256", "ES256"]), ("EC-P256", "ES256", ["ES384", "ES256K", "ES256", "RS256"]),
                          ("EC-P384", "ES384", ["ES256", "ES384"])):
        t_ = ctx.real([("jws.sig", {"jws": {"payload": "cGF5"}, "sig": {"protected": {"alg": h}}, "jwk": pool[kn]})])[0]
        for k in others:
            add("jws.sig", {"jws": {"payload": "cGF5"}, "sig": {"protected": {"alg": h}}, "jwk": dict(pool[kn], alg=k)}, h, k)
            if t_.get("ok"):
                add("jws.ver", {"jws": t_["jws"], "jwk": dict(K.public(pool[kn]), alg=k)}, h, k)
    # --- permissions where the algorithm is inferred (nothing named in the template) ---
    inf_entry = [("jws.sig", lambda k: {"jws": {"payload": "cGF5"}, "jwk": dict(pool["oct-32"], **k)}, "sign"),
                 ("jws.sig", lambda k: {"jws": {"payload": "cGF5"}, "sig": {}, "jwk": dict(pool["EC-P256"], **k)}, "sign"),
                 ("jwe.enc_jwk", lambda k: {"jwe": {}, "jwk": dict(kw_key, **k), "cek": {}, "rand": "33" * 64}, "wrapKey"),
                 ("jwe.enc_cek", lambda k: {"jwe": {}, "cek": dict(cekA, **k), "pt": "00", "rand": "22" * 32}, "encrypt"),
                 ("jwe.enc", lambda k: {"jwe": {}, "jwk": dict(pool["EC-P256"], **k), "pt": "00", "rand": "33" * 100}, "wrapKey")]
    for op, build, need in inf_entry:
        for m, v in perm_cases:
            add(op, build({m: v}), None, None, perm=(need, {m: v}))
    # nothing named in the template and the key DECLARES an algorithm: that one is used or the call is refused - a key that
    # declares a key-wrapping / content-encryption / other family's algorithm is never used for a signature (and vice versa)
    for kn, decl in (("oct-32", "A256KW"), ("oct-32", "A256GCM"), ("oct-64", "A128CBC-HS256"), ("oct-32", "dir"), ("oct-64", "A256GCMKW"), ("oct-32", "ES256"),
                     ("EC-P256", "ECDH-ES"), ("EC-P256", "HS256"), ("RSA-2048", "RSA-OAEP"), ("RSA-2048", "ES256")):
        for sigt in (None, {}, {"protected": {"kid": "k"}}, {"header": {"kid": "k"}}):
            a_ = {"jws": {"payload": "cGF5"}, "jwk": dict(pool[kn], alg=decl)}
            if sigt is not None:
                a_["sig"] = sigt
            add("jws.sig", a_, "<a signature algorithm>", decl)
    for kn, decl in (("oct-16", "HS256"), ("oct-32", "HS256"), ("EC-P256", "ES256"), ("RSA-2048", "RS256")):      # (a key declaring a content-encryption name is a direct key: legitimate)
        add("jwe.enc_jwk", {"jwe": {}, "jwk": dict(pool[kn], alg=decl), "cek": {}, "rand": "33" * 100}, "<a key-management algorithm>", decl)
    # both members at once, with the key also declaring the matching algorithm: key_ops decides
    for md in ({"use": "enc", "key_ops": ["verify"], "alg": "HS256"}, {"use": "sig", "key_ops": ["sign"], "alg": "HS256"}, {"use": "sig", "key_ops": [], "alg": "HS256"}):
        add("jws.ver", {"jws": toks["HS256"], "jwk": dict(key, **md)}, None, None, perm=("verify", {k_: v_ for k_, v_ in md.items() if k_ != "alg"}))

    def ok_of(op, r):
        if op in ("jws.sig", "jwe.enc_cek", "jwe.dec_cek", "jwe.enc_jwk", "jwe.dec", "jwe.enc"):
            return bool(r.get("ok"))
        if op == "jws.ver":
            return bool(r.get("r"))
        return "v" in r

    def verdict_only(op, args, r):
        # produced tokens are C03/C04's business (and some are randomized): here the verdict
        if op in ("jws.sig", "jwe.enc", "jwe.enc_jwk", "jwe.enc_cek") and isinstance(r, dict) and "crash" not in r:
            return {"ok": bool(r.get("ok"))}
        return r
    real, model = ctx.compare(ops, None, lambda o, a, r: json.dumps(a, sort_keys=True)[:3000], canon=verdict_only)
    for (op, args), (halg, kalg, also, perm), r in zip(ops, meta, real):
        if "crash" in r:
            continue
        ok = ok_of(op, r)
        if perm is None:
            same = (kalg == halg) or (also is not None and kalg == also)
            if ok and not same:
                ctx.pfails.append(("select:%s:accepts-mismatch" % op, "%s succeeded although the key declares %r and the header names %r" % (op, kalg, halg), op, args, r))
            registered = halg in names["sign"] + names["wrap"] + names["encr"] + names["exch"]
            if not ok and same and registered and not (op == "jwe.dec" and kalg == "dir"):
                ctx.pfails.append(("select:%s:refuses-match" % op, "%s refused although key alg = header alg = %r" % (op, halg), op, args, r))
        else:
            need, md = perm
            granted = statement_grant(dict({"kty": "x"}, **md), False, need)
            if ok != granted:
                ctx.pfails.append(("perm:%s:%s" % (op, "accepts" if ok else "refuses"),
                                   "%s with key metadata %s: operation %s is %sgranted but the call %s" % (op, json.dumps(md), need, "" if granted else "not ", "succeeded" if ok else "failed"), op, args, r))
    ctx.count("select-cases", len(ops))


def replay(ctx, rp):
    ops = [(o, a) for o, a in rp.get("ops", [])] + [(d["op"], d["args"]) for d in rp.get("correspondence_disagreements", [])]
    ctx.compare(ops, p_check, nontrivial)
