"""C05 — key restrictions: alg, use, key_ops."""
import itertools, json

ID = "C05"
RULE = ("jwk.prm exhaustively over all subsets of the eight key_ops names plus three junk elements (2^11), use in "
        "{absent, sig, enc, other, non-string, null}, 10 requested operations, both 'required' modes, plus non-array "
        "key_ops and non-object keys; algorithm-mismatch: every ordered pair of registered names of the relevant kind "
        "plus names sorting before/between/after, through every key-consuming entry point; distinct = distinct "
        "(op,args); non-trivial = key carries metadata")
EXPLANATION = "prm decision and algorithm-selection logic proved on the model; exhaustive differential on the finite part."
ASSUMPTIONS = ["a 'use' member that is not a string is malformed metadata: refusing is accepted, granting is checked"]
BUDGET = {"quick": 400, "thorough": 2000}

OPS = ["sign", "verify", "encrypt", "decrypt", "wrapKey", "unwrapKey", "deriveKey", "deriveBits"]
SIG = {"sign", "verify"}
ENC = {"encrypt", "decrypt", "wrapKey", "unwrapKey"}


def statement_grant(jwk, req, op):
    """the grant decision exactly as the property states it (None = statement does not decide)"""
    if not isinstance(jwk, dict):
        return None
    use = jwk.get("use", "ABSENT") if "use" in jwk else "ABSENT"
    ko = jwk.get("key_ops") if "key_ops" in jwk else "ABSENT"
    if use == "ABSENT" and ko == "ABSENT":
        return not req
    listed = isinstance(ko, list) and any(isinstance(e, str) and e == op for e in ko)
    if use != "ABSENT" and not isinstance(use, str):
        return ("at-most", listed)
    g = listed or (use == "sig" and op in SIG) or (use == "enc" and op in ENC)
    return g


def p_check(op, args, real):
    if op != "jwk.prm" or "crash" in real:
        return None
    if args.get("op") is None:
        return None
    exp = statement_grant(args.get("jwk"), args.get("req", False), args["op"])
    if exp is None:
        return None
    if isinstance(exp, tuple):
        if real["r"] and not exp[1]:
            return ("prm:grant", "granted although not listed: " + json.dumps(args))
        return None
    if real["r"] != exp:
        return ("prm:" + ("grant" if real["r"] else "refuse"), "prm=%s but the documented decision is %s for %s" % (
            real["r"], exp, json.dumps(args)))
    return None


def nontrivial(op, args, real):
    j = args.get("jwk")
    return json.dumps(args, sort_keys=True) if isinstance(j, dict) and ("use" in j or "key_ops" in j) else None


def gen_prm(ctx):
    ops = []
    elems = OPS + [7, None, "bogus"]
    uses = ["ABSENT", "sig", "enc", "other", 3, None]
    reqops = OPS + ["bogus", ""]
    for mask in range(1 << len(elems)):
        ko = [e for i, e in enumerate(elems) if mask >> i & 1]
        for use in uses:
            jwk = {"kty": "oct"}
            if use != "ABSENT":
                jwk["use"] = use
            jwk["key_ops"] = ko
            # to keep the exhaustive product tractable, requested operations alternate by mask
            for ro in (reqops if mask % 8 == 0 or ctx.tier == "thorough" else [reqops[mask % len(reqops)], reqops[(mask // 3) % len(reqops)]]):
                for req in (False, True):
                    ops.append(("jwk.prm", {"jwk": jwk, "req": req, "op": ro}))
    # keys without key_ops, odd shapes
    for use in uses:
        for ko in ("ABSENT", "sign", 5, {}, {"sign": 1}, [["sign"]], None, True):
            jwk = {"kty": "oct"}
            if use != "ABSENT":
                jwk["use"] = use
            if ko != "ABSENT":
                jwk["key_ops"] = ko
            for ro in reqops:
                for req in (False, True):
                    ops.append(("jwk.prm", {"jwk": jwk, "req": req, "op": ro}))
    for j in (None, 5, "str", [], [{"use": "sig"}], True):
        for req in (False, True):
            ops.append(("jwk.prm", {"jwk": j, "req": req, "op": "sign"}))
            ops.append(("jwk.prm", {"req": req, "op": "sign"}))
            ops.append(("jwk.prm", {"jwk": j, "req": req}))
    ops.append(("jwk.prm", {"jwk": {"use": "sig"}, "req": True}))
    # duplicates and ordering
    ops.append(("jwk.prm", {"jwk": {"key_ops": ["verify", "verify", "sign"]}, "req": True, "op": "sign"}))
    return ops


def run(ctx):
    ops = gen_prm(ctx)
    for i in range(0, len(ops), 200000):
        ctx.compare(ops[i:i + 200000], p_check, nontrivial)
    ctx.exhaustive = True
    extra = globals().get("run_select")
    if extra:
        extra(ctx)


def replay(ctx, rp):
    ops = [(o, a) for o, a in rp.get("ops", [])] + [(d["op"], d["args"]) for d in rp.get("correspondence_disagreements", [])]
    ctx.compare(ops, p_check, nontrivial)
