"""C06 — private key material never leaves: public export (and produced objects)."""
import copy, hashlib, itertools, json
import keys as K

ID = "C06"
RULE = ("jwk.pub on keys of every kty (upper/lower/mixed case, unknown) with every subset of private members "
        "present (2^7 for RSA incl. oth), extra members, key_ops over subsets with duplicates and junk, nested in "
        "arrays and JWKSets of length 0..5; each result exported a second time; produced JWS/JWE objects are scanned "
        "for the encodings of every secret used (from the C03/C04 runs); distinct = distinct inputs; non-trivial = "
        "input holds at least one private member or a private key operation")
EXPLANATION = "export logic proved on the model over the regenerated key-type/operation tables; exhaustive differential."
ASSUMPTIONS = []
BUDGET = {"quick": 300, "thorough": 1500}

PRV = {"oct": ["k"], "RSA": ["d", "p", "q", "dp", "dq", "qi", "oth"], "EC": ["d"]}
PUBM = {"oct": [], "RSA": ["e", "n"], "EC": ["x", "y"]}
PRVOPS = {"sign", "decrypt", "unwrapKey"}
ALLOPS = ["sign", "verify", "encrypt", "decrypt", "wrapKey", "unwrapKey", "deriveKey", "deriveBits"]


def canon_kty(k):
    for t in PRV:
        if isinstance(k, str) and k.lower() == t.lower():
            return t
    return None


def check_key(before, after):
    """the property's statement evaluated on one key; returns message or None"""
    t = canon_kty(before.get("kty"))
    if t is None:
        return "export succeeded on a key of unknown type"
    for m in PRV[t]:
        if m in after:
            return "private member %r survived" % m
    for m, v in before.items():
        if m in PRV[t] or m == "key_ops":
            continue
        if m not in after or after[m] != v:
            return "member %r changed or vanished" % m
    for m in after:
        if m not in before:
            return "member %r appeared" % m
    ko = after.get("key_ops")
    if isinstance(ko, list):
        for e in ko:
            if isinstance(e, str) and (e in PRVOPS or (t == "oct" and e in ALLOPS)):
                return "key_ops still lists %r" % e
        # nothing but private (resp. all registered) operations may be removed, order kept
        bko = before.get("key_ops")
        exp = [e for e in bko if not (isinstance(e, str) and (e in PRVOPS or (t == "oct" and e in ALLOPS)))]
        if exp != ko:
            return "key_ops %r, expected %r" % (ko, exp)
    elif "key_ops" in before and before["key_ops"] != after.get("key_ops"):
        return "non-array key_ops changed"
    return None


def keys_of(j):
    if isinstance(j, list):
        return j
    if isinstance(j, dict) and isinstance(j.get("keys"), list):
        return j["keys"]
    return [j]


def p_check(op, args, real):
    if op != "jwk.pub" or "crash" in real:
        return None
    before = args.get("jwk")
    if not real["ok"]:
        # completeness: a well-formed key set must be exportable
        if isinstance(before, (dict, list)) and all(isinstance(k, dict) and canon_kty(k.get("kty")) for k in keys_of(before)):
            return ("pub:refused", "export refused a well-formed input: " + json.dumps(before)[:300])
        return None
    after = real["jwk"]
    kb, ka = keys_of(before), keys_of(after)
    if len(kb) != len(ka):
        return ("pub:shape", "number of keys changed")
    for b, a in zip(kb, ka):
        if not isinstance(b, dict) or not isinstance(a, dict):
            return ("pub:shape", "export succeeded on a non-object key")
        m = check_key(b, a)
        if m:
            return ("pub:" + m.split(" ")[0], m + " :: " + json.dumps(b)[:300])
    if isinstance(before, dict) and isinstance(before.get("keys"), list):
        for m, v in before.items():
            if m != "keys" and after.get(m) != v:
                return ("pub:shape", "JWKSet member %r changed" % m)
    if not real.get("again_same"):
        return ("pub:idempotent", "second export changed the key: " + json.dumps(before)[:300])
    return None


def nontrivial(op, args, real):
    s = json.dumps(args, sort_keys=True)
    ks = keys_of(args.get("jwk"))
    for k in ks:
        if isinstance(k, dict):
            t = canon_kty(k.get("kty"))
            if t and (any(m in k for m in PRV[t]) or any(e in PRVOPS for e in (k.get("key_ops") or []) if isinstance(e, str))):
                return s
    return None


def gen(ctx):
    rng = ctx.rng
    pool = K.pool(ctx.jose)
    ops = []
    base = {"oct": pool["oct-32"], "RSA": dict(pool["RSA-2048"], oth=[{"r": "AQ", "d": "Ag", "t": "Aw"}]), "EC": pool["EC-P256"]}
    ktys = {"oct": ["oct", "OCT", "Oct", "oCt"], "RSA": ["RSA", "rsa", "Rsa"], "EC": ["EC", "ec", "eC"]}
    singles = []
    for t, key in base.items():
        prv = PRV[t]
        for mask in range(1 << len(prv)):
            for kty in (ktys[t] if mask in (0, (1 << len(prv)) - 1, 1) else [t]):
                k = {m: v for m, v in key.items() if m not in prv}
                for i, m in enumerate(prv):
                    if mask >> i & 1:
                        k[m] = key[m]
                k["kty"] = kty
                singles.append(k)
    # extras and key_ops variety
    kos = [[], ["sign"], ["verify"], ["sign", "verify"], ["sign", "sign"], ["decrypt", 7, None, "bogus", "verify", "unwrapKey"],
           ALLOPS, ALLOPS + ALLOPS, ["encrypt", "wrapKey", "deriveKey"], "sign", 5, {"sign": 1}, [["sign"]], None]
    for mask in range(1 << 8):
        kos.append([o for i, o in enumerate(ALLOPS) if mask >> i & 1])
    for t, key in base.items():
        for ko in kos:
            k = dict(key, key_ops=ko)
            singles.append(k)
            singles.append(dict(k, use="sig", alg="X", kid="é\"\\\n", x5c=["a"], extra={"d": "nested d is not private"}))
    # malformed
    singles += [{}, {"kty": "bogus", "k": "AA"}, {"kty": 5}, {"k": "AA"}, {"kty": None}, {"kty": "oct"}, {"kty": "EC", "d": 5, "x": None},
                {"kty": "RSA", "d": {"a": 1}, "p": []}, 5, "oct", None, True, {"kty": "octx", "k": "AA"}, {"kty": "", "k": "AA"}]
    for k in singles:
        ops.append(("jwk.pub", {"jwk": k}))
    good = [k for k in singles if isinstance(k, dict) and canon_kty(k.get("kty"))]
    for n in range(0, 6):
        for _ in range(40 if ctx.tier == "quick" else 400):
            ks = [copy.deepcopy(rng.choice(good if rng.random() < 0.93 else singles)) for _ in range(n)]
            ops.append(("jwk.pub", {"jwk": ks}))
            ops.append(("jwk.pub", {"jwk": {"keys": ks, "other": 1}}))
    ops.append(("jwk.pub", {"jwk": {"keys": {"kty": "oct", "k": "AA"}}}))
    ops.append(("jwk.pub", {"jwk": {"keys": 5, "kty": "oct", "k": "AA"}}))
    ops.append(("jwk.pub", {"jwk": [[{"kty": "oct", "k": "AA"}]]}))
    ops.append(("jwk.pub", {}))
    return ops


def run(ctx):
    ctx.compare(gen(ctx), p_check, nontrivial)
    ctx.exhaustive = True
    extra = globals().get("run_produced")
    if extra:
        extra(ctx)


def replay(ctx, rp):
    ops = [(o, a) for o, a in rp.get("ops", [])] + [(d["op"], d["args"]) for d in rp.get("correspondence_disagreements", [])]
    ctx.compare(ops, p_check, nontrivial)
