"""C06 — private key material never leaves: public export (and produced objects)."""
import base64, copy, hashlib, itertools, json
import keys as K

ID = "C06"
RULE = ("jwk.pub on keys of every kty (upper/lower/mixed case, unknown) with every subset of private members "
        "present (2^7 for RSA incl. oth), extra members, key_ops over subsets with duplicates and junk, nested in "
        "arrays and JWKSets of length 0..5; each result exported a second time; produced JWS/JWE objects are scanned "
        "for the encodings of every secret used (from the C03/C04 runs); distinct = distinct inputs; non-trivial = "
        "input holds at least one private member or a private key operation")
EXPLANATION = "export logic proved on the model over the regenerated key-type/operation tables; exhaustive differential."
ASSUMPTIONS = []
BUDGET = {"quick": 300, "thorough": 1500}

PRV = {"oct": ["k"], "RSA": ["d", "p", "q", "dp", "dq", "qi", "oth"], "EC": ["d"]}
PUBM = {"oct": [], "RSA": ["e", "n"], "EC": ["x", "y"]}
PRVOPS = {"sign", "decrypt", "unwrapKey"}
ALLOPS = ["sign", "verify", "encrypt", "decrypt", "wrapKey", "unwrapKey", "deriveKey", "deriveBits"]


def canon_kty(k):
    for t in PRV:
        if isinstance(k, str) and k.lower() == t.lower():
            return t
    return None


def check_key(before, after):
    """the property's statement evaluated on one key; returns message or None"""
    t = canon_kty(before.get("kty"))
    if t is None:
        return "export succeeded on a key of unknown type"
    for m in PRV[t]:
        if m in after:
            return "private member %r survived" % m
    for m, v in before.items():
        if m in PRV[t] or m == "key_ops":
            continue
        if m not in after or after[m] != v:
            return "member %r changed or vanished" % m
    for m in after:
        if m not in before:
            return "member %r appeared" % m
    ko = after.get("key_ops")
    if isinstance(ko, list):
        for e in ko:
            if isinstance(e, str) and (e in PRVOPS or (t == "oct" and e in ALLOPS)):
                return "key_ops still lists %r" % e
        # nothing but private (resp. all registered) operations may be removed, order kept
        bko = before.get("key_ops")
        exp = [e for e in bko if not (isinstance(e, str) and (e in PRVOPS or (t == "oct" and e in ALLOPS)))]
        if exp != ko:
            return "key_ops %r, expected %r" % (ko, exp)
    elif "key_ops" in before and before["key_ops"] != after.get("key_ops"):
        return "non-array key_ops changed"
    return None


def keys_of(j):
    if isinstance(j, list):
        return j
    if isinstance(j, dict) and isinstance(j.get("keys"), list):
        return j["keys"]
    return [j]


def p_check(op, args, real):
    if op != "jwk.pub" or "crash" in real:
        return None
    before = args.get("jwk")
    if not real["ok"]:
        # completeness: a well-formed key set must be exportable
        if isinstance(before, (dict, list)) and all(isinstance(k, dict) and canon_kty(k.get("kty")) for k in keys_of(before)):
            return ("pub:refused", "export refused a well-formed input: " + json.dumps(before)[:300])
        return None
    after = real["jwk"]
    kb, ka = keys_of(before), keys_of(after)
    if len(kb) != len(ka):
        return ("pub:shape", "number of keys changed")
    for b, a in zip(kb, ka):
        if not isinstance(b, dict) or not isinstance(a, dict):
            return ("pub:shape", "export succeeded on a non-object key")
        m = check_key(b, a)
        if m:
            return ("pub:" + m.split(" ")[0], m + " :: " + json.dumps(b)[:300])
    if isinstance(before, dict) and isinstance(before.get("keys"), list):
        for m, v in before.items():
            if m != "keys" and after.get(m) != v:
                return ("pub:shape", "JWKSet member %r changed" % m)
    if not real.get("again_same"):
        return ("pub:idempotent", "second export changed the key: " + json.dumps(before)[:300])
    return None


def nontrivial(op, args, real):
    s = json.dumps(args, sort_keys=True)
    ks = keys_of(args.get("jwk"))
    for k in ks:
        if isinstance(k, dict):
            t = canon_kty(k.get("kty"))
            if t and (any(m in k for m in PRV[t]) or any(e in PRVOPS for e in (k.get("key_ops") or []) if isinstance(e, str))):
                return s
    return None


def gen(ctx):
    rng = ctx.rng
    pool = K.pool(ctx.jose)
    ops = []
    base = {"oct": pool["oct-32"], "RSA": dict(pool["RSA-2048"], oth=[{"r": "AQ", "d": "Ag", "t": "Aw"}]), "EC": pool["EC-P256"]}
    ktys = {"oct": ["oct", "OCT", "Oct", "oCt"], "RSA": ["RSA", "rsa", "Rsa"], "EC": ["EC", "ec", "eC"]}
    singles = []
    for t, key in base.items():
        prv = PRV[t]
        for mask in range(1 << len(prv)):
            for kty in (ktys[t] if mask in (0, (1 << len(prv)) - 1, 1) else [t]):
                k = {m: v for m, v in key.items() if m not in prv}
                for i, m in enumerate(prv):
                    if mask >> i & 1:
                        k[m] = key[m]
                k["kty"] = kty
                singles.append(k)
    # extras and key_ops variety
    kos = [[], ["sign"], ["verify"], ["sign", "verify"], ["sign", "sign"], ["decrypt", 7, None, "bogus", "verify", "unwrapKey"],
           ALLOPS, ALLOPS + ALLOPS, ["encrypt", "wrapKey", "deriveKey"], "sign", 5, {"sign": 1}, [["sign"]], None]
    for mask in range(1 << 8):
        kos.append([o for i, o in enumerate(ALLOPS) if mask >> i & 1])
    for t, key in base.items():
        for ko in kos:
            k = dict(key, key_ops=ko)
            singles.append(k)
            singles.append(dict(k, use="sig", alg="X", kid="é\"\\\n", x5c=["a"], extra={"d": "nested d is not private"}))
    # key_ops on keys that are ALREADY public, or that hold only some private members; kty in other letter case together
    # with key_ops; extra members named like another type's private members (they are extras here and stay)
    for t, key in base.items():
        pubk = {m: v for m, v in key.items() if m not in {"oct": ["k"], "RSA": ["d", "p", "q", "dp", "dq", "qi", "oth"], "EC": ["d"]}[t]}
        for ko in kos[:10] + [ALLOPS]:
            singles.append(dict(pubk, key_ops=ko))
            for kty in ktys[t][1:3]:
                singles.append(dict(key, kty=kty, key_ops=ko))
                singles.append(dict(pubk, kty=kty, key_ops=ko))
        other_priv = {"oct": {"d": "AAAA", "p": "AAAA", "qi": "AAAA"}, "RSA": {"k": "AAAA"}, "EC": {"k": "AAAA", "p": "AAAA", "dq": "AAAA"}}[t]
        singles.append(dict(key, **other_priv))
        singles.append(dict(pubk, **other_priv))
    # malformed
    singles += [{}, {"kty": "bogus", "k": "AA"}, {"kty": 5}, {"k": "AA"}, {"kty": None}, {"kty": "oct"}, {"kty": "EC", "d": 5, "x": None},
                {"kty": "RSA", "d": {"a": 1}, "p": []}, 5, "oct", None, True, {"kty": "octx", "k": "AA"}, {"kty": "", "k": "AA"}]
    for k in singles:
        ops.append(("jwk.pub", {"jwk": k}))
    good = [k for k in singles if isinstance(k, dict) and canon_kty(k.get("kty"))]
    for n in range(0, 6):
        for _ in range(40 if ctx.tier == "quick" else 400):
            ks = [copy.deepcopy(rng.choice(good if rng.random() < 0.93 else singles)) for _ in range(n)]
            ops.append(("jwk.pub", {"jwk": ks}))
            ops.append(("jwk.pub", {"jwk": {"keys": ks, "other": 1}}))
    ops.append(("jwk.pub", {"jwk": {"keys": {"kty": "oct", "k": "AA"}}}))
    ops.append(("jwk.pub", {"jwk": {"keys": 5, "kty": "oct", "k": "AA"}}))
    ops.append(("jwk.pub", {"jwk": [[{"kty": "oct", "k": "AA"}]]}))
    ops.append(("jwk.pub", {}))
    return ops


def run(ctx):
    ctx.compare(gen(ctx), p_check, nontrivial)
    ctx.exhaustive = True
    extra = globals().get("run_produced")
    if extra:
        extra(ctx)


PRIVATE = {"oct": ["k"], "RSA": ["d", "p", "q", "dp", "dq", "qi", "oth"], "EC": ["d"]}


def secrets_of(key):
    out = []
    if isinstance(key, str):
        # a password: as text, and as the library holds it internally (an oct key whose k is its base64url)
        return ([key] if len(key) >= 6 else []) + ([base64.urlsafe_b64encode(key.encode()).decode().rstrip("=")] if len(key) >= 6 else [])
    if isinstance(key, list):
        return sum((secrets_of(k) for k in key), [])
    if isinstance(key, dict):
        if isinstance(key.get("keys"), list):
            return secrets_of(key["keys"])
        for m in PRIVATE.get(key.get("kty"), []):
            if isinstance(key.get(m), str) and len(key[m]) >= 8:
                out.append(key[m])
    return out


def scan(tok, secrets):
    """-> description of the first leak found in a produced object, else None: a private member name inside any embedded
    key object, or the text of a secret anywhere (also inside the decoded protected headers)"""
    import base64
    texts = [json.dumps(tok)]
    def walk(v, path):
        if isinstance(v, dict):
            if "kty" in v:
                for m in PRIVATE.get(v.get("kty"), ["d", "k"]):
                    if m in v:
                        return "private member %r in the key object at %s" % (m, path)
            for k, x in v.items():
                if k == "protected" and isinstance(x, str):
                    try:
                        dec = json.loads(base64.urlsafe_b64decode(x + "=" * (-len(x) % 4)))
                        texts.append(json.dumps(dec))
                        r = walk(dec, path + "/protected")
                        if r:
                            return r
                    except Exception:
                        pass
                r = walk(x, path + "/" + k)
                if r:
                    return r
        elif isinstance(v, list):
            for i, x in enumerate(v):
                r = walk(x, "%s[%d]" % (path, i))
                if r:
                    return r
        return None
    r = walk(tok, "")
    if r:
        return r
    for s_ in secrets:
        for t in texts:
            if s_ in t:
                return "the secret value %s... appears in the output" % s_[:12]
    return None


def run_produced(ctx):
    """every JWS / JWE the library produces, over all algorithms and recipient lists: no private member, content key or
    password in it"""
    import keys as K, jwsgen as G, jwegen as E
    rng = ctx.rng
    pool = K.pool(ctx.jose)
    ops = []
    pay = G.b64u(b"produced objects")
    for name in ("oct-32", "oct-64", "EC-P256", "EC-P384", "EC-P521", "EC-K256", "RSA-2048"):
        for alg in G.algs_for(name, pool[name]):
            for t in ({"protected": {"alg": alg}}, {"header": {"alg": alg}}, None):
                a = {"jws": {"payload": pay}, "jwk": pool[name] if t is not None else dict(pool[name], alg=alg), "_keys": [pool[name]]}
                if t is not None:
                    a["sig"] = t
                ops.append(("jws.sig", a))
    ops.append(("jws.sig", {"jws": {"payload": pay}, "jwk": [pool["oct-32"], pool["EC-P256"], pool["RSA-2048"]], "_keys": [pool["oct-32"], pool["EC-P256"], pool["RSA-2048"]]}))
    for wrap in E.WRAPS:
        for enc in (E.ENCS if wrap in ("dir", "ECDH-ES") else rng.sample(E.ENCS, 2)):
            key = E.key_for(pool, wrap, enc, rng)
            for place in ("protected", "unprotected", "recipient", "infer"):
                jwe, rcp = {}, None
                if place == "protected":
                    jwe = {"protected": {"alg": wrap, "enc": enc}}
                elif place == "unprotected":
                    jwe = {"unprotected": {"alg": wrap, "enc": enc}}
                elif place == "recipient":
                    jwe, rcp = {"protected": {"enc": enc}}, {"header": {"alg": wrap}}
                a = {"jwe": jwe, "jwk": key, "pt": "00112233", "rand": rng.randbytes(300).hex(), "_keys": [key]}
                if rcp:
                    a["rcp"] = rcp
                ops.append(("jwe.enc", a))
                ops.append(("jwe.enc_jwk", {"jwe": jwe, "rcp": rcp or {}, "jwk": key, "cek": {}, "rand": rng.randbytes(300).hex(), "_keys": [key], "_cek": True}))
    multi = [pool["oct-16"], pool["EC-P256"], pool["EC-P521"], pool["RSA-2048"], "a password of some length"]
    ops.append(("jwe.enc", {"jwe": {"protected": {"enc": "A128CBC-HS256"}}, "jwk": multi, "pt": "00", "rand": rng.randbytes(900).hex(), "_keys": multi}))
    sent = [(o, {k: v for k, v in a.items() if not k.startswith("_")}) for o, a in ops]
    real = ctx.real(sent)
    n = 0
    for (o, a), r in zip(ops, real):
        ctx.evaluations += 1
        if not r.get("ok"):
            continue
        n += 1
        tok = r.get("jws") or r.get("jwe")
        secrets = secrets_of(a["_keys"])
        if a.get("_cek") or o == "jwe.enc":
            k = (r.get("cek") or {}).get("k")
            if k and not any(isinstance(x, dict) and x.get("k") == k for x in a["_keys"]):
                secrets.append(k)
        leak = scan(tok, secrets)
        if leak:
            ctx.pfails.append(("produced:" + o, "%s: %s" % (leak, json.dumps(tok)[:400]), o, {k: v for k, v in a.items() if not k.startswith("_")}, r))
    ctx.count("produced-objects-scanned", n)


def replay(ctx, rp):
    ops = [(o, a) for o, a in rp.get("ops", [])] + [(d["op"], d["args"]) for d in rp.get("correspondence_disagreements", [])]
    ctx.compare(ops, p_check, nontrivial)
