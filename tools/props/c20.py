"""C20 — a failed memory allocation makes the operation fail, never lie or crash."""
import json, os, re, subprocess
import keys as K
import jwsgen as G
import jwegen as E
import framework as F
from props import c09, c11

ID = "C20"
BUILDS = ["asan", "alloc"]
RULE = ("allocation-fault enumeration on the working tree's library compiled with its malloc/calloc/realloc/strdup "
        "redirected to a counting allocator and jansson's allocator replaced (allocations made by jansson are counted when "
        "the first stack frame outside libjansson lies in the library's text): for every scenario (generate oct/EC/RSA, "
        "export, thumbprint string and buffer, exchange ECDH/ECMR, sign and verify with HMAC/ECDSA/RSA incl. multi-key and "
        "streamed, valid and invalid signatures, wrap/unwrap/encrypt/decrypt with dir, AES-KW, GCMKW, ECDH-ES, PBES2, RSA "
        "incl. zip, aad, multi-recipient and streamed, header merging, base64url/JSON wrappers, IO chains) the fault-free "
        "run counts N allocations, then the k-th is made to fail for EVERY k in 1..N. Each faulted run is executed three "
        "times under ASan/UBSan (heap-balance measurement, steady-state re-measurement if needed, reported result). "
        "distinct = (scenario, k); non-trivial = the fault fired")
EXPLANATION = ("failure propagation through IO chains (a refusing sink call makes the whole run fail; success means the "
               "refusing call never happened), the schedule theorem of Jose/Alloc.lean (for a call that follows the discipline a fault that fires makes it fail, one that does not changes nothing; lib/hsh.c transcribed and proved to follow it) and the balance of the header functions on their allocation-failure paths are "
               "theorems on the model; that every allocation site of the C checks its result is established by exhaustive "
               "fault enumeration per scenario: validation, not proof")
ASSUMPTIONS = ["OpenSSL's internal allocations are not failed (the property quantifies over the library's and the JSON layer's)",
               "a success under a fault must be the fault-free result (deterministic operations) or pass the independent validity "
               "check (randomized ones: the signature verifies, the JWE decrypts to the plaintext, the key is consistent)"]
BUDGET = {"quick": 1200, "thorough": 4800}
TRUSTED = ["harness/hx_alloc.c (counting allocator, stack-walk attribution), gcc ASan/UBSan"]


def lib_text(info):
    mp = open(info["hx"] + ".map").read().splitlines()
    regs = []
    for i, ln in enumerate(mp):
        m = re.match(r"^ (\.text[\w.\-]*)\s*(0x[0-9a-f]+)?\s*(0x[0-9a-f]+)?\s*(\S+)?$", ln)
        if not m:
            continue
        sec, addr, size, obj = m.groups()
        if addr is None:
            m2 = re.match(r"^\s+(0x[0-9a-f]+)\s+(0x[0-9a-f]+)\s+(\S+)$", mp[i + 1]) if i + 1 < len(mp) else None
            if not m2:
                continue
            addr, size, obj = m2.groups()
        if obj and "/obj/lib_" in obj and int(size, 16) > 0:
            regs.append((int(addr, 16), int(size, 16)))
    r = subprocess.run(["nm", info["hx"]], stdout=subprocess.PIPE, text=True)
    anchor = [int(l.split()[0], 16) for l in r.stdout.splitlines() if l.endswith(" hx_text_anchor")]
    if not anchor or not regs:
        raise RuntimeError("link map / text anchor not found")
    return [[a - anchor[0], s] for a, s in regs]


def failed(op, r):
    """does the result of op report failure through its return value?"""
    if not isinstance(r, dict):
        return True
    if "ok" in r:
        return not r["ok"]
    if "r" in r:
        return not r["r"]
    if "nil" in r:
        return True
    if "io" in r or "feeds" in r:
        fed = r.get("feeds")
        return (not r.get("io", True)) or (isinstance(fed, list) and not all(fed)) or r.get("done") is not True
    if "ret" in r:
        return r["ret"] == "max"
    if "imported" in r:
        return not r["imported"] or r.get("jwk") is None
    if "steps" in r:
        return any(s is None for s in r["steps"])
    if "error" in r or r.get("nochain"):
        return True
    return False


# jansson 2.14 functions shown (tools/probes/jansson_alloc.c) to report success, or crash, when one of their own
# allocations fails: the JSON layer itself lies to the library
def site_of(kind, op, entry):
    if entry and entry != "direct":
        return "alloc:%s:jansson:%s" % (kind, entry)
    return "alloc:%s:%s" % (kind, op)


def norm(op, r):
    """parts of a result that are the operation's answer (harness by-products removed)"""
    if isinstance(r, dict) and op == "jwk.pub":
        return {k: v for k, v in r.items() if k != "again_same"}
    return r


def norm_io(args, r):
    """an `any` multiplexer drops a failing branch and goes on: the sinks of dropped branches are not part of its answer"""
    if isinstance(r, dict) and isinstance(args.get("chain"), list) and args["chain"][:2] == ["plex", False]:
        return {k: v for k, v in r.items() if k != "leaves"}
    return r


def scenarios(ctx):
    rng = ctx.rng
    pool = K.pool(ctx.jose)
    bs = c09.bases(ctx, rng)
    quick = ctx.tier == "quick"
    out = []
    seen = {}
    for o, a in bs:
        if o == "jwk.gen" and isinstance(a.get("jwk"), dict) and a["jwk"].get("kty") == "RSA":
            continue
        seen[o] = seen.get(o, 0) + 1
        cap = {"jws.sig": 10, "jws.ver": 14, "jwe.enc": 21, "jwe.dec": 21, "jwe.dec_jwk": 8, "jwk.thp": 3, "jwk.thp_buf": 3, "jwk.pub": 4,
               "jwk.eql": 3, "jwk.prm": 2, "ossl.roundtrip": 5, "jws.hdr": 3, "jwe.hdr": 4}.get(o, 6)
        if quick and seen[o] > cap:
            continue
        out.append((o, a))
    # invalid inputs whose verdict must stay "failure" under every fault
    pay = G.b64u(b"payload of C20")
    tok = {"payload": pay, "protected": G.enc({"alg": "HS256"}), "signature": G.b64u(bytes(32))}
    out.append(("jws.ver", {"jws": tok, "jwk": pool["oct-32"], "all": False}))
    tok2 = {"payload": pay, "protected": G.enc({"alg": "ES256"}), "signature": G.b64u(bytes(range(64)))}
    out.append(("jws.ver", {"jws": tok2, "jwk": pool["EC-P256"], "all": True}))
    tok3 = {"payload": pay, "protected": G.enc({"alg": "RS256"}), "signature": G.b64u(bytes(256))}
    out.append(("jws.ver", {"jws": tok3, "jwk": pool["RSA-2048"], "all": True}))
    out.append(("jws.ver_io", {"jws": {k: v for k, v in tok2.items() if k != "payload"}, "jwk": pool["EC-P256"], "all": False, "feeds": [pay.encode().hex()]}))
    # (r, s) = (Qx mod n, Qx mod n) verifies the all-zero digest under any EC key: a verifier that loses its digest to a
    # failed allocation and carries on would accept it
    import ecmath
    for kn, alg in (("EC-P256", "ES256"), ("EC-P384", "ES384"), ("EC-P521", "ES512"), ("EC-K256", "ES256K")):
        k_ = pool[kn]
        n_ = ecmath.CURVES[k_["crv"]]["n"]
        w_ = len(G.b64d(k_["x"]))
        r_ = int.from_bytes(G.b64d(k_["x"]), "big") % n_
        tokz = {"payload": pay, "protected": G.enc({"alg": alg}), "signature": G.b64u(r_.to_bytes(w_, "big") * 2)}
        out.append(("jws.ver", {"jws": tokz, "jwk": K.public(k_), "all": False}))
        out.append(("jws.ver_io", {"jws": {k: v for k, v in tokz.items() if k != "payload"}, "jwk": K.public(k_), "all": False, "feeds": [pay.encode().hex()]}))
    # one call for several keys with ONE template: whatever allocation fails, the call fails or the result is the
    # fault-free one (in particular the template's members are not silently dropped for some of the keys)
    out.append(("jws.sig", {"jws": {"payload": pay}, "sig": {"protected": {"alg": "HS256"}, "header": {"kid": "k"}}, "jwk": [pool["oct-32"], pool["oct-64"]]}))
    out.append(("jws.sig", {"jws": {"payload": pay}, "sig": {"header": {"kid": "shared"}}, "jwk": {"keys": [pool["oct-32"], pool["oct-64"]]}}))
    out.append(("jwe.enc_jwk", {"jwe": {"protected": {"enc": "A128GCM"}}, "rcp": {"header": {"kid": "r"}}, "jwk": [pool["oct-16"], pool["oct-32"]], "cek": {},
                                "rand": rng.randbytes(300).hex()}))
    out.append(("jwe.enc", {"jwe": {"protected": {"enc": "A128GCM"}}, "rcp": {"header": {"kid": "r", "x": [1, {"y": 2}]}}, "jwk": {"keys": [pool["oct-16"], pool["oct-24"]]},
                            "pt": "0011", "rand": rng.randbytes(300).hex()}))
    # several keys, every key demanded, one signature invalid: the verdict stays failure under every fault
    two = ctx.real([("jws.sig", {"jws": {"payload": pay}, "sig": [{"protected": {"alg": "HS256"}}, {"protected": {"alg": "ES256"}}], "jwk": [pool["oct-32"], pool["EC-P256"]]})])[0]
    if two.get("ok") and isinstance(two["jws"].get("signatures"), list):
        t2 = json.loads(json.dumps(two["jws"]))
        t2["signatures"][1]["signature"] = G.b64u(bytes(range(64)))
        out.append(("jws.ver", {"jws": t2, "jwk": [pool["oct-32"], pool["EC-P256"]], "all": True}))
        out.append(("jws.ver", {"jws": t2, "jwk": {"keys": [pool["EC-P256"], pool["oct-32"]]}, "all": True}))
        out.append(("jws.ver_io", {"jws": {k: v for k, v in t2.items() if k != "payload"}, "jwk": [pool["oct-32"], pool["EC-P256"]], "all": True, "feeds": [pay.encode().hex()]}))
    # JWE whose fault-free verdict is failure: a compressed token above the 256 KiB bound of one-shot decryption, and
    # tokens with a wrong tag / a wrong encrypted key for several key-management algorithms
    cekz = {"kty": "oct", "k": G.b64u(rng.randbytes(16))}
    big = ctx.real([("jwe.enc_cek", {"jwe": {"protected": {"enc": "A128GCM", "zip": "DEF"}}, "cek": cekz, "pt": rng.randbytes(200000).hex(), "rand": "44" * 16})])[0]
    if big.get("ok"):
        out.append(("jwe.dec_cek", {"jwe": big["jwe"], "cek": cekz}))
    for w, kn in (("A128KW", "oct-16"), ("A256GCMKW", "oct-32"), ("RSA-OAEP", "RSA-2048"), ("ECDH-ES", "EC-P256"), ("dir", None)):
        key = pool[kn] if kn else dict(cekz, alg="A128GCM")
        t = ctx.real([("jwe.enc", {"jwe": {"protected": {"alg": w, "enc": "A128GCM"}}, "jwk": key, "pt": "001122", "rand": rng.randbytes(300).hex()})])[0]
        if t.get("ok"):
            out.append(("jwe.dec", {"jwe": dict(t["jwe"], tag=G.b64u(bytes(16))), "jwk": key, "rand": "00" * 600}))
            if t["jwe"].get("encrypted_key"):
                ek = G.b64d(t["jwe"]["encrypted_key"])
                out.append(("jwe.dec", {"jwe": dict(t["jwe"], encrypted_key=G.b64u(bytes([ek[0] ^ 1]) + ek[1:])), "jwk": key, "rand": "00" * 600}))
    # inference and default branches that allocate: nothing named in the template, default PBES2 count, encoded protected
    out.append(("jwe.enc", {"jwe": {}, "jwk": pool["oct-16"], "pt": "00", "rand": rng.randbytes(300).hex()}))
    out.append(("jwe.enc", {"jwe": {"protected": G.enc({"kid": "p"})}, "jwk": pool["oct-16"], "pt": "00", "rand": rng.randbytes(300).hex()}))
    out.append(("jwe.enc", {"jwe": {"protected": {"alg": "PBES2-HS256+A128KW", "enc": "A128GCM"}}, "jwk": "password", "pt": "00", "rand": rng.randbytes(300).hex()}))
    out.append(("jws.sig", {"jws": {"payload": pay}, "jwk": pool["oct-32"]}))
    for t in ({"alg": "A128KW"}, {"alg": "A128GCM"}, {"alg": "ECMR"}, {"alg": "ECDH-ES+A128KW"}):
        out.append(("jwk.gen", {"jwk": t, "rand": rng.randbytes(80).hex()}))
    out.append(("ossl.roundtrip", {"jwk": pool["oct-32"]}))
    out.append(("io.run", {"chain": ["b64enc", ["file"]], "feeds": ["616263", "6465"]}))
    # RSA1_5 unwrap (the random-key countermeasure must not turn a failed store into success)
    for w in ("RSA1_5", "RSA-OAEP-256"):
        t = ctx.real([("jwe.enc", {"jwe": {"protected": {"alg": w, "enc": "A128CBC-HS256"}}, "jwk": pool["RSA-2048"], "pt": "001122", "rand": rng.randbytes(300).hex()})])[0]
        if t.get("ok"):
            out.append(("jwe.dec_jwk", {"jwe": t["jwe"], "jwk": pool["RSA-2048"], "rand": "00" * 600}))
            out.append(("jwe.dec", {"jwe": t["jwe"], "jwk": pool["RSA-2048"], "rand": "00" * 600}))
    # IO chains and codecs
    for ch in (["b64enc", ["malloc"]], ["b64dec", ["malloc"]], ["hash", "S256", ["buffer", 32]], ["hash", "S512", ["b64enc", ["malloc"]]],
               ["deflate", ["inflate", ["malloc"]]], ["plex", True, [["b64enc", ["malloc"]], ["hash", "S384", ["buffer", 48]]]],
               ["plex", False, [["b64dec", ["malloc"]], ["malloc"]]]):
        data = b"QUJDREVGR0g" * 30 if ch[0] == "b64dec" or (ch[0] == "plex" and not ch[1]) else rng.randbytes(300)
        out.append(("io.run", {"chain": ch, "feeds": [data[:100].hex(), data[100:].hex()]}))
    # key conversion to and from OpenSSL objects with private material of each type (always, also in the quick tier)
    for kn in ("RSA-2048", "EC-P256", "EC-P521"):
        out.append(("ossl.roundtrip", {"jwk": pool[kn]}))
    out.append(("jwk.gen", {"jwk": {"kty": "RSA", "bits": 2048}}))
    out.append(("misc.entity_hist", {"kind": "jws", "start": {"payload": "cA"}, "objs": [{"signature": "s1"}, {"signature": "s2", "protected": "cDI"}],
                                     "plural": "signatures", "keys": ["signature", "protected", "header"]}))
    return out


def second_stage(ctx, checks):
    """validity of successes obtained under a fault from randomized operations"""
    ops, meta = [], []
    for (sc, k, o, a, r, entry) in checks:
        if o in ("jws.sig", "jws.sig_io"):
            tok = r.get("jws")
            if o == "jws.sig_io":
                tok = dict(tok, payload=G.b64u(bytes.fromhex("".join(a["feeds"])))) if isinstance(tok, dict) else tok
                ops.append(("jws.ver_io", {"jws": {kk: v for kk, v in tok.items() if kk != "payload"}, "jwk": a["jwk"], "all": True, "feeds": a["feeds"]}))
            else:
                ops.append(("jws.ver", {"jws": tok, "jwk": a["jwk"], "all": True}))
            meta.append((sc, k, o, None, entry))
        elif o == "jwe.enc":
            ops.append(("jwe.dec", {"jwe": r.get("jwe"), "jwk": a["jwk"] if not isinstance(a["jwk"], list) else a["jwk"][0], "rand": "00" * 600}))
            meta.append((sc, k, o, a["pt"], entry))
        elif o == "jwe.enc_jwk":
            ops.append(("jwe.dec_jwk", {"jwe": r.get("jwe"), "jwk": a["jwk"], "rand": "00" * 600}))
            meta.append((sc, k, o, ("cek", (r.get("cek") or {}).get("k")), entry))
        elif o == "jwk.gen":
            ex = c11.expected(ctx, a["jwk"])
            err = c11.check_key(a["jwk"], r.get("jwk"), ex[1]) if ex[0] == "accept" else None
            if err:
                ctx.pfails.append((site_of("wrong-result", o, entry), "scenario %d, allocation %d failed, yet a key was returned that is not valid: %s" % (sc, k, err), "alloc.run", {"op": o, "args": a, "k": k}, r))
    if not ops:
        return
    real = ctx.real(ops)
    for (sc, k, o, want, entry), (vo, va), vr in zip(meta, ops, real):
        ctx.evaluations += 1
        good = not failed(vo, vr)
        if good and isinstance(want, str) and vr.get("pt") != want:
            good = False
        if good and isinstance(want, tuple) and (vr.get("v") or {}).get("k") != want[1]:
            good = False
        if not good:
            ctx.pfails.append((site_of("wrong-result", o, entry), "scenario %d: with allocation %d failing %s reported success, but its output is not accepted by %s: %s"
                               % (sc, k, o, vo, json.dumps(va)[:500]), "alloc.run", {"op": vo, "args": va, "k": 0}, vr))


def run(ctx):
    info = ctx.builds["alloc"]
    text = lib_text(info)
    scs = scenarios(ctx)
    def line(o, a, k, warm=False):
        return ("alloc.run", {"op": o, "args": a, "k": k, "text": text, "warm": warm})
    base = ctx.real([line(o, a, 0, True) for o, a in scs] + [line(o, a, 0) for o, a in scs], kind="alloc", chunk_min=8)
    n = len(scs)
    ops, meta = [], []
    randomized = []
    for i, (o, a) in enumerate(scs):
        b0, b1 = base[i], base[n + i]
        if "crash" in b0 or "res" not in b0:
            ctx.pfails.append(("alloc:baseline", "fault-free run failed: %s" % json.dumps(b0)[:300], "alloc.run", {"op": o, "args": a, "k": 0}, b0))
            randomized.append(True)
            continue
        randomized.append(b0["res"] != b1.get("res"))
        N = b0["count"]
        ctx.count("allocations:" + o, N)
        if b0.get("leak_bytes"):
            ctx.pfails.append(("alloc:leak", "%s retains %d bytes without any fault" % (o, b0["leak_bytes"]), "alloc.run", {"op": o, "args": a, "k": 0}, b0))
        for k in range(1, N + 1):
            ops.append(line(o, a, k))
            meta.append((i, k))
    ctx.count("scenarios", n)
    ctx.count("fault-runs", len(ops))
    res = ctx.real(ops, kind="alloc", chunk_min=20)
    ctx.evaluations += len(res) + 2 * n
    checks = []
    fired = 0
    for (i, k), (_, la), r in zip(meta, ops, res):
        o, a = scs[i]
        ctx.distinct.add(("%d/%d" % (i, k)).encode())
        replay_args = {"op": o, "args": a, "k": k}
        if "crash" in r:
            ctx.pfails.append((site_of("crash", o, r.get("entry")), "scenario %d (%s): allocation %d of %d failing (requested through %s) crashes: %s at %s"
                               % (i, o, k, base[i]["count"], r.get("entry"), r["crash"], r.get("frame")), "alloc.run", replay_args, r))
            continue
        if "res" not in r:
            ctx.pfails.append(("alloc:harness", json.dumps(r)[:200], "alloc.run", replay_args, r))
            continue
        if r.get("fired"):
            fired += 1
        if r.get("leak_bytes"):
            ctx.pfails.append(("alloc:leak:" + o, "scenario %d (%s): with allocation %d failing %d heap bytes are retained per call" % (i, o, k, r["leak_bytes"]),
                               "alloc.run", replay_args, r))
        rk, r0 = norm(o, r["res"]), norm(o, base[i]["res"])
        if o == "io.run":
            rk, r0 = norm_io(a, rk), norm_io(a, r0)
        if rk == r0 or failed(o, rk):
            continue
        if randomized[i] and o in ("jws.sig", "jws.sig_io", "jwe.enc", "jwe.enc_jwk", "jwk.gen"):
            checks.append((i, k, o, a, rk, r.get("entry")))
            continue
        if randomized[i]:
            continue
        ctx.pfails.append((site_of("wrong-result", o, r.get("entry")), "scenario %d: with allocation %d of %d failing (requested through %s) %s reports success with a result "
                           "different from the fault-free one: %s vs %s" % (i, k, base[i]["count"], r.get("entry"), o, json.dumps(rk)[:300], json.dumps(r0)[:300]),
                           "alloc.run", replay_args, r))
    ctx.count("faults-fired", fired)
    second_stage(ctx, checks)
    ctx.exhaustive = True
    ctx.samples = [{"op": "alloc.run %s k=%d" % (scs[i][0], k), "real": F._short(r), "model": "n/a (fault enumeration)"} for (i, k), r in list(zip(meta, res))[:: max(1, len(res) // 10)]][:12]


def replay(ctx, rp):
    info = ctx.builds["alloc"]
    text = lib_text(info)
    for op, a in rp.get("ops", []):
        if op != "alloc.run":
            continue
        r = ctx.real([("alloc.run", dict(a, text=text))], kind="alloc")[0]
        ctx.evaluations += 1
        if "crash" in r:
            ctx.pfails.append(("alloc:crash:" + a.get("op", "?"), r["crash"], "alloc.run", a, r))
        elif r.get("leak_bytes"):
            ctx.pfails.append(("alloc:leak:" + a.get("op", "?"), "retains %d bytes" % r["leak_bytes"], "alloc.run", a, r))
