"""C09 — no memory-safety violation and no leak for any JSON input to the API."""
import copy, json
import keys as K
import jwsgen as G
import jwegen as E
import framework as F

ID = "C09"
CORPUS_FIRST = True
RULE = ("every operation of the harness (jws sig/sig_io/ver/ver_io/hdr, jwe enc/enc_jwk/enc_cek/enc_cek_io/dec/dec_jwk/"
        "dec_cek/dec_cek_io/hdr, jwk gen/pub/prm/eql/thp/thp_buf/exc, OpenSSL conversions, b64 JSON wrappers) on valid "
        "objects of every algorithm and on 1..4 random edits of them at any path of any argument: member deletion, "
        "substitution by each JSON type, string truncation / character flip / extension / non-alphabet bytes / decoded "
        "lengths 1023, 1024, 1025, 1040, 1041, 1368, 65536, nesting changes (wrap in array or object, unwrap), duplicated "
        "array elements; each call runs under ASan+UBSan three times (warm-up, heap-balance measurement, result) with the "
        "argument deep-compare and reference-count sum of the harness. distinct = distinct (op,args); non-trivial = every "
        "line. Failures: sanitizer report, changed caller reference counts, modified read-only argument, heap bytes "
        "retained after the results were released")
EXPLANATION = ("bounds of fixed-buffer decodes and the reference-count discipline of the header functions / IO stages are "
               "theorems (for every input text / every JSON type; IO chains of any length: every release order of the handles keeps each count as specified and frees everything, Jose/Rc.lean); memory safety of the compiled code at large is decided "
               "by this instrumented run against the model's verdicts: validation, not proof")
ASSUMPTIONS = ["heap balance is measured with __sanitizer_get_current_allocated_bytes around a second execution of the call "
               "(the first warms lazily initialised OpenSSL state), ERR queue cleared"]
BUDGET = {"quick": 900, "thorough": 3600}
TRUSTED = ["AddressSanitizer / UndefinedBehaviorSanitizer (gcc), harness main loop (deep-compare, refcount sum, heap balance)"]

LONG = [1023, 1024, 1025, 1040, 1041, 1368, 65536]
LIMIT_MS = 15000     # RSA keys with nonsensical private members can keep OpenSSL busy for minutes: such calls are cut off and counted
READ_ONLY = ("jws.ver", "jws.ver_io", "jws.hdr", "jwe.hdr", "jwe.dec", "jwe.dec_jwk", "jwe.dec_cek", "jwe.dec_cek_io", "jwe.dec_io", "jwk.thp",
             "jwk.thp_buf", "jwk.eql", "jwk.prm", "jwk.exc", "ossl.roundtrip", "b64.dec", "b64.dec_load", "b64.enc_dump")
TOKEN_MEMBERS = ("signatures", "recipients", "protected", "header", "unprotected", "payload", "signature", "encrypted_key",
                 "ciphertext", "iv", "tag", "aad", "k", "keys")
JSON_ARGS = ("jws", "sig", "jwk", "jwe", "rcp", "cek", "prv", "pub", "a", "b", "i")


def paths_of(v, p, out):
    out.append(p)
    if isinstance(v, dict):
        for k in v:
            paths_of(v[k], p + [k], out)
    elif isinstance(v, list):
        for i, x in enumerate(v):
            paths_of(x, p + [i], out)


def _at(v, p):
    for k in p:
        v = v[k]
    return v


def edit(rng, root):
    """one random edit somewhere in root (a dict of JSON arguments); returns a new root"""
    o = copy.deepcopy(root)
    ps = []
    paths_of(o, [], ps)
    ps = [p for p in ps if p]
    if not ps:
        return o
    p = rng.choice(ps)
    cur = o
    for k in p[:-1]:
        cur = cur[k]
    last = p[-1]
    old = cur[last]
    kind = rng.randrange(13)
    subs = [None, True, False, 0, -1, 2 ** 40, 1.5, "", "AAAA", "!!", [], {}, [None], {"a": 1}, [[]], {"keys": []}]
    if kind == 12:
        ds = [q for q in [[]] + ps if isinstance(_at(o, q), dict)]
        if ds:
            _at(o, rng.choice(ds))[rng.choice(TOKEN_MEMBERS + ("alg", "enc", "zip", "epk", "kty", "crv", "x", "y", "d", "n", "e", "use", "key_ops", "p2c", "p2s"))] = rng.choice(subs)
        return o
    if kind == 0 and isinstance(cur, dict) and len(p) > 1:
        del cur[last]
    elif kind in (1, 2):
        cur[last] = rng.choice(subs)
    elif kind == 3:
        cur[last] = [old]
    elif kind == 4:
        cur[last] = {"keys": [old]} if rng.random() < 0.5 else {"x": old}
    elif kind == 5 and isinstance(old, (list, dict)) and old:
        cur[last] = (old[0] if isinstance(old, list) else next(iter(old.values())))
    elif kind == 6 and isinstance(old, list):
        cur[last] = old + old[:1] * rng.randrange(1, 3)
    elif isinstance(old, str):
        if kind == 7:
            cur[last] = old[:rng.randrange(len(old) + 1)]
        elif kind == 8 and old:
            k = rng.randrange(len(old))
            cur[last] = old[:k] + rng.choice("A-_=+/ é\u0000~") + old[k + 1:]
        elif kind == 9:
            cur[last] = old + rng.choice(["A", "AA", "AAA", "=", "\n", "A" * 100])
        elif kind == 10:
            cur[last] = G.b64u(rng.randbytes(rng.choice(LONG)))
        else:
            cur[last] = rng.choice(subs)
    else:
        cur[last] = rng.choice(subs)
    return o


def bases(ctx, rng):
    """valid calls of every kind: (op, args)"""
    pool = K.pool(ctx.jose)
    pay = G.b64u(b"payload of C09")
    prod = []
    for name in ("oct-32", "oct-64", "RSA-2048", "EC-P256", "EC-P384", "EC-P521", "EC-K256"):
        for alg in G.algs_for(name, pool[name])[:4]:
            prod.append(("jws.sig", {"jws": {"payload": pay}, "sig": {"protected": {"alg": alg}, "header": {"kid": "k"}}, "jwk": pool[name]}))
    prod.append(("jws.sig", {"jws": {"payload": pay}, "sig": {}, "jwk": [pool["oct-32"], pool["EC-P256"]]}))
    prod.append(("jws.sig", {"jws": {"payload": pay}, "sig": [{"protected": {"alg": "HS256"}}, {"header": {"alg": "ES256"}}], "jwk": {"keys": [pool["oct-32"], pool["EC-P256"]]}}))
    prod.append(("jws.sig_io", {"jws": {}, "sig": {"protected": {"alg": "HS512"}}, "jwk": pool["oct-64"], "feeds": ["6162", "", "63"]}))
    for wrap in E.WRAPS:
        enc = rng.choice(E.ENCS)
        key = E.key_for(pool, wrap, enc, rng)
        jwe = {"protected": {"alg": wrap, "enc": enc}}
        if rng.random() < 0.3:
            jwe["protected"]["zip"] = "DEF"
        if rng.random() < 0.3:
            jwe["aad"] = "YWFk"
        if wrap.startswith("PBES2"):
            jwe["protected"]["p2c"] = 1000
        prod.append(("jwe.enc", {"jwe": jwe, "jwk": key, "pt": rng.randbytes(33).hex(), "rand": rng.randbytes(300).hex()}))
    prod.append(("jwe.enc", {"jwe": {"protected": {"enc": "A128GCM"}}, "rcp": {"header": {"kid": "r"}}, "jwk": [pool["oct-16"], pool["EC-P256"], pool["RSA-2048"]],
                             "pt": "00", "rand": rng.randbytes(400).hex()}))
    prod.append(("jwe.enc_jwk", {"jwe": {"protected": {"enc": "A256GCM"}}, "rcp": {}, "jwk": pool["oct-32"], "cek": {}, "rand": rng.randbytes(300).hex()}))
    # one template per key (the library completes each of them in place)
    prod.append(("jwe.enc_jwk", {"jwe": {"protected": {"enc": "A128GCM"}}, "rcp": [{"header": {"kid": "a"}}, {}, {"header": {"kid": "c"}}],
                                 "jwk": [pool["oct-16"], pool["EC-P256"], pool["oct-32"]], "cek": {}, "rand": rng.randbytes(500).hex()}))
    prod.append(("jwe.enc", {"jwe": {"protected": {"enc": "A128GCM"}}, "rcp": [{}, {"header": {"kid": "b"}}], "jwk": {"keys": [pool["oct-16"], pool["RSA-2048"]]},
                             "pt": "0011", "rand": rng.randbytes(500).hex()}))
    prod.append(("jwe.enc_cek", {"jwe": {"protected": {"enc": "A128CBC-HS256"}}, "cek": {"kty": "oct", "k": G.b64u(rng.randbytes(32))}, "pt": "0011", "rand": "44" * 16}))
    prod.append(("jwe.enc_cek_io", {"jwe": {"protected": {"enc": "A256GCM", "zip": "DEF"}}, "cek": {"kty": "oct", "k": G.b64u(rng.randbytes(32))},
                                    "feeds": ["0011", "", "22" * 40], "rand": "44" * 16}))
    prod.append(("jwe.enc_io", {"jwe": {"protected": {"alg": "A128KW", "enc": "A128CBC-HS256", "zip": "DEF"}}, "jwk": pool["oct-16"], "feeds": ["0011", "", "22" * 40],
                                "rand": rng.randbytes(300).hex()}))
    prod.append(("jwe.enc_io", {"jwe": {"protected": {"enc": "A256GCM"}}, "rcp": {"header": {"kid": "r"}}, "jwk": [pool["oct-32"], pool["EC-P256"]], "feeds": ["00"],
                                "rand": rng.randbytes(400).hex()}))
    for t in ({"alg": "HS256"}, {"alg": "ES384"}, {"kty": "oct", "bytes": 24}, {"kty": "EC", "crv": "P-521"}, {"alg": "A128GCMKW", "use": "enc"},
              {"kty": "RSA", "bits": 1024}, {"kty": "RSA", "e": "AQAB", "bits": 100}):
        prod.append(("jwk.gen", {"jwk": t, "rand": rng.randbytes(80).hex()}))
    real = ctx.real(prod)
    out = list(prod)
    for (o, a), r in zip(prod, real):
        if not r.get("ok"):
            continue
        if o in ("jws.sig", "jws.sig_io"):
            tok = r["jws"]
            keys = a["jwk"]
            out.append(("jws.ver", {"jws": tok, "jwk": keys, "all": True}))
            out.append(("jws.ver", {"jws": tok, "jwk": keys, "all": False}))
            sigs = tok.get("signatures")
            if isinstance(sigs, list) and sigs:
                out.append(("jws.ver", {"jws": tok, "sig": sigs[0], "jwk": keys, "all": False}))
                out.append(("jws.hdr", {"sig": sigs[-1]}))
            else:
                out.append(("jws.hdr", {"sig": tok}))
            if "payload" in tok:
                det = {k: v for k, v in tok.items() if k != "payload"}
                out.append(("jws.ver_io", {"jws": det, "jwk": keys, "all": False, "feeds": [tok["payload"].encode().hex()[:20], tok["payload"].encode().hex()[20:]]}))
        elif o == "jwe.enc":
            tok = r["jwe"]
            out.append(("jwe.dec", {"jwe": tok, "jwk": a["jwk"], "rand": "00" * 4096}))
            out.append(("jwe.dec_jwk", {"jwe": tok, "jwk": a["jwk"], "rand": "00" * 4096}))
            rc = tok.get("recipients")
            out.append(("jwe.hdr", {"jwe": tok, "rcp": rc[0] if isinstance(rc, list) and rc else tok}))
            if isinstance(rc, list) and rc:
                out.append(("jwe.dec_jwk", {"jwe": tok, "rcp": rc[-1], "jwk": a["jwk"], "rand": "00" * 4096}))
        elif o == "jwe.enc_io":
            try:
                raw = G.b64d(r["jwe"]["ciphertext"])
                det = {k: v for k, v in r["jwe"].items() if k != "ciphertext"}
                out.append(("jwe.dec_io", {"jwe": det, "jwk": a["jwk"], "feeds": [raw[:5].hex(), raw[5:].hex()], "rand": "00" * 4096}))
                rc = det.get("recipients")
                if isinstance(rc, list) and rc:
                    out.append(("jwe.dec_io", {"jwe": det, "rcp": rc[0], "jwk": a["jwk"], "feeds": [raw.hex()], "rand": "00" * 4096}))
            except Exception:
                pass
        elif o == "jwe.enc_cek":
            out.append(("jwe.dec_cek", {"jwe": r["jwe"], "cek": a["cek"]}))
        elif o == "jwe.enc_cek_io":
            try:
                raw = G.b64d(r["jwe"]["ciphertext"])
                out.append(("jwe.dec_cek_io", {"jwe": r["jwe"], "cek": a["cek"], "feeds": [raw[:5].hex(), raw[5:].hex()]}))
            except Exception:
                pass
    for n in sorted(pool):
        k = pool[n]
        out.append(("jwk.thp", {"jwk": k, "alg": "S256"}))
        out.append(("jwk.thp_buf", {"jwk": k, "alg": "S512", "len": 64}))
        out.append(("jwk.pub", {"jwk": k}))
        out.append(("jwk.pub", {"jwk": {"keys": [k, K.public(k)]}}))
        out.append(("jwk.eql", {"a": k, "b": K.public(k)}))
        out.append(("jwk.prm", {"jwk": dict(k, key_ops=["sign", "verify"], use="sig"), "op": "sign", "req": True}))
        out.append(("ossl.roundtrip", {"jwk": k}))
    for a_, b_ in (("EC-P256", "EC-P256-b"), ("EC-P384", "EC-P384-b"), ("EC-P521", "EC-P521-b")):
        out.append(("jwk.exc", {"prv": pool[a_], "pub": K.public(pool[b_])}))
        out.append(("jwk.exc", {"prv": dict(pool[a_], alg="ECMR"), "pub": dict(K.public(pool[b_]), alg="ECMR")}))
    out.append(("b64.dec_load", {"j": G.enc({"a": [1, 2, {"b": None}]})}))
    out.append(("b64.enc_dump", {"j": {"z": 1, "a": "é"}}))
    out.append(("b64.dec", {"j": G.b64u(b"decode me"), "ol": 9}))
    # caller-supplied content keys of boundary lengths through every wrapping family; public-only keys; agreement data
    for w, kn in (("A128KW", "oct-16"), ("A256GCMKW", "oct-32"), ("RSA-OAEP", "RSA-2048"), ("RSA1_5", "RSA-2048"), ("ECDH-ES+A128KW", "EC-P256"), ("PBES2-HS256+A128KW", None)):
        for n in (16, 1024, 1025):
            out.append(("jwe.enc_jwk", {"jwe": {"protected": dict({"alg": w, "enc": "A128GCM"}, **({"p2c": 1000} if w.startswith("PBES2") else {}))}, "rcp": {},
                                        "jwk": pool[kn] if kn else "password", "cek": {"kty": "oct", "k": G.b64u(bytes([0xA5]) * n)}, "rand": rng.randbytes(300).hex()}))
    out.append(("jwe.enc", {"jwe": {"protected": {"alg": "RSA-OAEP", "enc": "A128GCM"}}, "jwk": K.public(pool["RSA-2048"]), "pt": "00", "rand": rng.randbytes(300).hex()}))
    out.append(("jwe.enc", {"jwe": {"protected": {"alg": "ECDH-ES", "enc": "A128GCM", "apu": G.b64u(bytes(1024)), "apv": G.b64u(bytes(1025))}},
                            "jwk": K.public(pool["EC-P256"]), "pt": "00", "rand": rng.randbytes(300).hex()}))
    out.append(("jwe.enc", {"jwe": {"protected": {"alg": "ECDH-ES", "enc": "A128GCM", "apu": G.b64u(b"A"), "apv": G.b64u(b"B")}}, "jwk": pool["EC-P256"], "pt": "00",
                            "rand": rng.randbytes(300).hex()}))
    for n_ in ("RSA-2048", "EC-P256", "EC-K256"):
        out.append(("ossl.roundtrip", {"jwk": K.public(pool[n_])}))
    out.append(("ossl.roundtrip", {"jwk": pool["oct-32"]}))
    # templates with an already encoded protected header, names in the shared unprotected header
    out.append(("jwe.enc_cek", {"jwe": {"protected": G.enc({"zip": "DEF"})}, "cek": {"kty": "oct", "k": G.b64u(rng.randbytes(32))}, "pt": "00" * 5000, "rand": "44" * 16}))
    out.append(("jwe.enc", {"jwe": {"protected": G.enc({"alg": "A128KW"}), "unprotected": {"enc": "A128GCM"}}, "jwk": pool["oct-16"], "pt": "", "rand": rng.randbytes(300).hex()}))
    out.append(("jws.sig", {"jws": {"payload": pay}, "sig": {"protected": G.enc({"kid": "x"})}, "jwk": pool["oct-32"]}))
    out.append(("jwe.enc_cek", {"jwe": {"protected": {"enc": "A128GCM", "zip": "DEF"}}, "cek": {"kty": "oct", "k": G.b64u(rng.randbytes(16))}, "pt": "", "rand": "44" * 16}))
    out.append(("jwe.enc_cek", {"jwe": {"protected": {"enc": "A128CBC-HS256", "zip": "DEF"}}, "cek": {"kty": "oct", "k": G.b64u(rng.randbytes(32))}, "pt": "ab" * 20000, "rand": "44" * 16}))
    out.append(("jwk.pub", {"jwk": dict(pool["EC-P256"], key_ops=["sign", "verify", "sign", 5])}))
    out.append(("jwk.pub", {"jwk": dict(pool["oct-32"], key_ops=["sign", "verify", "encrypt", "decrypt"])}))
    for t in ({"alg": "A128GCM"}, {"alg": "ECDH-ES+A128KW"}, {"alg": "ECMR"}, {"alg": "A128KW"}, {"kty": "oct", "bytes": 1024}, {"kty": "oct", "bytes": 1025}):
        out.append(("jwk.gen", {"jwk": t, "rand": rng.randbytes(1100).hex()}))
    return out


def key_lists_nested(j):
    ks = j if isinstance(j, list) else (j.get("keys") if isinstance(j, dict) and isinstance(j.get("keys"), list) else None)
    if ks is None:
        return False
    return any(isinstance(k, list) or (isinstance(k, dict) and isinstance(k.get("keys"), list)) for k in ks)


RSA_PRIV = ("n", "e", "d", "p", "q", "dp", "dq", "qi", "oth")


def rsa_private_edited(args, pool_privs):
    """an RSA key whose private members are not those of a pool key: OpenSSL's handling of inconsistent private
    material (CRT fault checks, blinding) is not modelled"""
    def walk(v):
        if isinstance(v, dict):
            if v.get("kty") == "RSA" and any(m in v for m in RSA_PRIV[2:]):
                if json.dumps({m: v.get(m) for m in RSA_PRIV}, sort_keys=True) not in pool_privs:
                    return True
            elif v.get("kty") == "RSA" and ("n" in v or "e" in v):
                # public values that are not those of a pool key: OpenSSL's own limits on e and n decide
                if not any(json.loads(p_).get("n") == v.get("n") and json.loads(p_).get("e") == v.get("e") for p_ in pool_privs):
                    return True
            return any(walk(x) for x in v.values())
        if isinstance(v, list):
            return any(walk(x) for x in v)
        return False
    return walk(args)


NAME_MEMBERS = ("alg", "enc", "kty", "crv", "use", "zip")


def nul_in_names(v):
    if isinstance(v, dict):
        for k, x in v.items():
            if k in NAME_MEMBERS and isinstance(x, str) and "\u0000" in x:
                return True
            if k == "key_ops" and isinstance(x, list) and any(isinstance(e, str) and "\u0000" in e for e in x):
                return True
            if nul_in_names(x):
                return True
    elif isinstance(v, list):
        return any(nul_in_names(x) for x in v)
    return False


def model_scope(op, args, pool_privs):
    """None if the model covers this call, else the reason it is executed on the implementation only"""
    if op == "ossl.roundtrip":
        return "OpenSSL conversion functions are not modelled"
    for k in ("jwk",):
        if k in args and key_lists_nested(args[k]) and op not in ("jws.ver", "jws.ver_io"):
            return "nested key lists are modelled for verification only"
    if nul_in_names(args):
        return "a name (alg, enc, kty, crv, use, key_ops, zip) with an embedded NUL: compared as a C string by the library (open finding nul:c-string-compare)"
    if op in ("jwk.thp", "jwk.thp_buf") and not isinstance(args.get("alg"), str):
        return "hash name not a string (the harness then passes NULL, which no caller of the documented API does)"
    if rsa_private_edited(args, pool_privs):
        return "RSA members that are not those of a generated key: OpenSSL-internal behaviour"
    return None


def p_check(op, args, real):
    if not isinstance(real, dict) or "crash" in real:
        return None           # crashes are recorded by the framework
    if real.get("refs_changed"):
        return ("refs:" + op, "%s changed the reference counts of its arguments: %s" % (op, json.dumps(args)[:700]))
    if real.get("args_mutated") and op in READ_ONLY:
        return ("mutated:" + op, "%s modified an argument: %s" % (op, json.dumps(args)[:700]))
    if real.get("leak_bytes"):
        return ("leak:" + op, "%s retained %d heap bytes after its results were released: %s" % (op, real["leak_bytes"], json.dumps(args)[:700]))
    return None


def rsa15(jwe):
    try:
        h = dict(json.loads(G.b64d(jwe["protected"]))) if isinstance(jwe.get("protected"), str) else dict(jwe.get("protected") or {})
        for l in (jwe.get("unprotected"), jwe.get("header")):
            if isinstance(l, dict):
                for k, v in l.items():
                    h.setdefault(k, v)
        if h.get("alg") == "RSA1_5":
            return True
        return any(isinstance(rc, dict) and (rc.get("header") or {}).get("alg") == "RSA1_5" for rc in (jwe.get("recipients") or []) if isinstance(jwe.get("recipients"), list))
    except Exception:
        return True         # undecidable: do not compare key bytes


def canon(op, args, r):
    if isinstance(r, dict):
        r = {k: v for k, v in r.items() if k not in ("leak_bytes", "rand_calls", "canary")}
        if op in ("jwe.enc_cek", "jwe.enc_cek_io") and r.get("ok") and isinstance(r.get("jwe"), dict):
            try:
                z = json.loads(G.b64d(r["jwe"]["protected"])).get("zip")
            except Exception:
                z = None
            if z:       # the model deflates into stored blocks
                r = dict(r, jwe=dict(r["jwe"], ciphertext="<ct>", tag="<tag>"))
        if op == "jwe.dec_jwk" and isinstance(r.get("v"), dict) and isinstance(r["v"].get("k"), str) and (rsa15(args.get("jwe")) or '"RSA"' in json.dumps(args.get("jwk"))):
            # RSA1_5 hands out a random content key when the padding is bad (drawn from the tape while it lasts, from the
            # real generator behind it): neither its bytes nor, past the tape, its length are comparable
            r = dict(r, v=dict(r["v"], k="<k>"))      # (not even its length: the model stops at the end of the tape)
        if op in ("jws.sig", "jws.sig_io", "jwe.enc", "jwe.enc_io", "jwe.enc_jwk", "jwk.gen", "ossl.roundtrip") :
            return {k: v for k, v in r.items() if k in ("ok", "imported", "args_mutated", "refs_changed", "crash", "error")}
    return r


def run(ctx):
    rng = ctx.rng
    bs = bases(ctx, rng)
    n_mut = 60 if ctx.tier == "quick" else 600
    ops = []
    for o, a in bs:
        ops.append((o, dict(a, _leakcheck=True, _limit_ms=LIMIT_MS)))
        for _ in range(n_mut):
            root = {k: v for k, v in a.items() if k in JSON_ARGS}
            rest = {k: v for k, v in a.items() if k not in JSON_ARGS}
            for _ in range(rng.randrange(1, 5)):
                root = edit(rng, root)
            ops.append((o, dict(rest, _leakcheck=True, _limit_ms=LIMIT_MS, **root)))
    # directed stream (no chance involved): every text member of every base call replaced by base64url text of each
    # boundary length, by the empty string, and cut in half
    nb = 0
    for o, a in bs:
        root = {k: v for k, v in a.items() if k in JSON_ARGS}
        rest = {k: v for k, v in a.items() if k not in JSON_ARGS}
        ps = []
        paths_of(root, [], ps)
        for p_ in ps:
            cur = root
            for k in p_[:-1]:
                cur = cur[k]
            if not p_ or not isinstance(cur[p_[-1]], str):
                continue
            # key material of RSA keys: a few members only (each conversion is expensive), everything else fully
            if o.startswith(("jws", "jwe")) and len(p_) >= 2 and p_[-1] in ("p", "q", "dp", "dq", "qi", "d", "n") and isinstance(cur, dict) and cur.get("kty") == "RSA" and p_[-1] != "n":
                continue
            for n in LONG[:6] + [0, -1]:
                r2 = copy.deepcopy(root)
                c2 = r2
                for k in p_[:-1]:
                    c2 = c2[k]
                old_ = c2[p_[-1]]
                c2[p_[-1]] = "" if n == 0 else old_[:len(old_) // 2] if n == -1 else G.b64u(bytes([0xA5]) * n)
                ops.append((o, dict(rest, _leakcheck=True, _limit_ms=LIMIT_MS, **r2)))
                nb += 1
    ctx.count("boundary-length mutants", nb)
    # directed stream: every JOSE member name a token / template / recipient / content-key argument does not have yet,
    # added with an empty array, an empty object, empty text, a number and [{}] (edits above only change what is there)
    na = 0
    for o, a in bs:
        rest = {k: v for k, v in a.items() if k not in JSON_ARGS}
        for arg in ("jws", "sig", "jwe", "rcp", "cek"):
            if not isinstance(a.get(arg), dict):
                continue
            for name in TOKEN_MEMBERS:
                if name in a[arg]:
                    continue
                for val in ([], {}, "", 0, [{}]):
                    root = {k: copy.deepcopy(v) for k, v in a.items() if k in JSON_ARGS}
                    root[arg][name] = val
                    ops.append((o, dict(rest, _leakcheck=True, _limit_ms=LIMIT_MS, **root)))
                    na += 1
    ctx.count("member-added mutants", na)
    pool = K.pool(ctx.jose)
    privs = {json.dumps({m: k.get(m) for m in RSA_PRIV}, sort_keys=True) for k in pool.values() if k.get("kty") == "RSA"}
    only_real = [x for x in ops if model_scope(x[0], x[1], privs)]
    ids = {id(x) for x in only_real}
    ops = [x for x in ops if id(x) not in ids]
    for (o, a), r in zip(only_real, ctx.real(only_real)):
        ctx.evaluations += 1
        if isinstance(r, dict) and r.get("timeout"):
            ctx.count("cut-off after %d ms (%s)" % (LIMIT_MS, model_scope(o, a, privs)))
            continue
        ctx.count("implementation-only:" + model_scope(o, a, privs))
        if isinstance(r, dict) and "crash" in r:
            ctx.pfails.append(("crash:" + o, r["crash"], o, a, r))
        pf = p_check(o, a, r)
        if pf:
            ctx.pfails.append((pf[0], pf[1], o, a, r))
    heavy = [x for x in ops if x[0] == "jwk.gen" and isinstance(x[1].get("jwk"), dict) and x[1]["jwk"].get("kty") == "RSA"]
    hid = {id(x) for x in heavy}
    light = [x for x in ops if id(x) not in hid]
    for i in range(0, len(light), 40000):
        ctx.compare(light[i:i + 40000], p_check, lambda o, a, r: json.dumps(a, sort_keys=True)[:4000], canon=canon)
    if heavy:
        ctx.compare(heavy, p_check, lambda o, a, r: json.dumps(a, sort_keys=True)[:4000], canon=canon, chunk_min=2)
    ctx.count("base-calls", len(bs))
    ctx.count("mutants", len(ops) - len(bs))


def replay(ctx, rp):
    ops = [(o, dict(a, _leakcheck=True)) for o, a in rp.get("ops", [])]
    ctx.compare(ops, p_check, None, canon=canon)
