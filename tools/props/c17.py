"""C17 — no hidden state: read-only calls are pure, contexts isolated, calls re-entrant."""
import copy, itertools, json, os, re, subprocess
import keys as K
import jwsgen as G
import jwegen as E
import framework as F

ID = "C17"
BUILDS = ["asan", "tsan"]
RULE = ("(a) cfg.hist: every history of length <=3 (quick) / <=4 (thorough) over 22 context operations after two "
        "creations (incref/decref/set x4/get/err x2/library call per context, new, NULL-context report), plus random "
        "histories of 5..40 operations over up to 6 contexts; model vs lib/cfg.c and a direct oracle (last "
        "registration wins, own handler/own pointer only). (b) purity battery: every read-only entry point (ver, "
        "ver_io, hdr, dec_jwk, dec_cek, dec_cek_io, dec, thp, thp_buf, eql, prm, exc) and multi-key producing calls "
        "with one shared template, on valid inputs of every algorithm and on type-substituted / truncated variants; "
        "the harness deep-compares every argument and its reference counts before/after. (c) the same battery in one "
        "process between two fingerprints of every writable static region of the library (link map), and on 2/4/8/16 "
        "threads under ThreadSanitizer, results compared line by line with the sequential run. distinct = distinct "
        "(op,args); non-trivial = every evaluated line")
EXPLANATION = ("context isolation / delivery / get are theorems over all histories of the model of lib/cfg.c; the static "
               "storage inventory is a regenerated table fact; argument preservation and race freedom are properties of "
               "the compiled C and are decided by the instrumented runs (validation, not proof) — Lean cannot exhibit "
               "a data race or a write through a const pointer")
ASSUMPTIONS = ["strerror() texts for codes below _JOSE_CFG_ERR_BASE are libc's and are not compared",
               "ThreadSanitizer sees only instrumented code (libjose + harness); OpenSSL and jansson are uninstrumented"]
BUDGET = {"quick": 600, "thorough": 2400}
TRUSTED = ["harness main loop (argument deep-compare, reference-count sum), link-map parser, ThreadSanitizer"]

BASE = None


# ---------------------------------------------------------------- (a) contexts

def alphabet(base, nctx):
    ops = [["new"], ["err", None, 0, "n"], ["lib", None, 0]]
    for i in range(nctx):
        ops += [["incref", i], ["decref", i], ["get", i], ["set", i, 1, 1], ["set", i, 2, 2], ["set", i, 0, 3], ["set", i, 1, 0],
                ["err", i, base + 1 + i, "e%d" % i], ["err", i, 0, "z"], ["lib", i, i % 4], ["auto", i]]
    return ops


def cfg_oracle(op, args, real):
    """the property itself, on the real outputs: every context has its own (handler, pointer), last registration wins"""
    if op != "cfg.hist" or "crash" in real:
        return None
    st = {}          # slot -> [refs, h, m]
    n = 0
    for o, out in zip(args["ops"], real.get("outs", [])):
        name = o[0]
        i = o[1] if len(o) > 1 else None
        if name == "new":
            if out.get("o") == "created":
                st[n] = [1, 0, 0]
                n += 1
            continue
        live = i is not None and i in st and st[i][0] > 0
        if name in ("err", "lib"):
            if i is not None and not live:
                continue
            h, m = (0, 0) if i is None else (st[i][1], st[i][2])
            calls = out.get("calls", [])
            if h == 0:
                if calls or not out.get("stderr"):
                    return ("cfg:default-handler", "default handler expected, got %s :: %s" % (json.dumps(out), json.dumps(args)))
            else:
                if len(calls) != 1 or calls[0]["h"] != h or calls[0]["misc"] != m or out.get("stderr"):
                    return ("cfg:delivery", "context %s has handler %d with pointer %d registered but the report went to %s :: %s"
                            % (i, h, m, json.dumps(out), json.dumps(args)))
                if name == "err" and (calls[0]["code"] != o[2] or calls[0]["msg"] != o[3] + "7"):
                    return ("cfg:delivery", "code/text altered: %s" % json.dumps(out))
            continue
        if not live:
            continue
        if name == "incref":
            st[i][0] += 1
        elif name in ("decref", "auto"):
            st[i][0] -= 1
        elif name == "set":
            st[i][1], st[i][2] = o[2] % 3, o[3] % 4
        elif name == "get":
            if out.get("misc") != st[i][2]:
                return ("cfg:get_err_misc", "jose_cfg_get_err_misc returned %s, the registered pointer is #%d :: %s"
                        % ("a foreign pointer" if out.get("misc") == -1 else "#%s" % out.get("misc"), st[i][2], json.dumps(args)))
    return None


def run_cfg(ctx):
    base = ctx.tables["cfg_err_base"]
    rng = ctx.rng
    al = alphabet(base, 2)
    maxlen = 3 if ctx.tier == "quick" else 4
    ops = []
    for n in range(0, maxlen + 1):
        for h in itertools.product(al, repeat=n):
            ops.append(("cfg.hist", {"ops": [["new"], ["new"]] + [list(x) for x in h]}))
    al6 = alphabet(base, 6)
    for _ in range(4000 if ctx.tier == "quick" else 60000):
        n = rng.randrange(5, 41)
        ops.append(("cfg.hist", {"ops": [["new"]] + [list(rng.choice(al6)) for _ in range(n)]}))
    for i in range(0, len(ops), 100000):
        ctx.compare(ops[i:i + 100000], cfg_oracle, lambda o, a, r: json.dumps(a))
    ctx.count("cfg-histories", len(ops))


# ---------------------------------------------------------------- (b) purity battery

def mutations(rng, obj, n):
    """type substitutions / deletions / string edits at random paths of a JSON value"""
    out = []
    subs = [None, True, 5, 1.5, "", "AAAA", [], {}, [1], {"a": 1}]
    paths = []
    def walk(v, p):
        paths.append(p)
        if isinstance(v, dict):
            for k in v:
                walk(v[k], p + [k])
        elif isinstance(v, list):
            for i, x in enumerate(v):
                walk(x, p + [i])
    walk(obj, [])
    paths = [p for p in paths if p]
    for _ in range(n):
        if not paths:
            break
        p = rng.choice(paths)
        o = copy.deepcopy(obj)
        cur = o
        for k in p[:-1]:
            cur = cur[k]
        kind = rng.randrange(4)
        old = cur[p[-1]]
        if kind == 0:
            cur[p[-1]] = rng.choice(subs)
        elif kind == 1 and isinstance(cur, dict):
            del cur[p[-1]]
        elif isinstance(old, str) and old:
            if kind == 2:
                cur[p[-1]] = old[:rng.randrange(len(old))]
            else:
                k = rng.randrange(len(old))
                cur[p[-1]] = old[:k] + ("A" if old[k] != "A" else "B") + old[k + 1:]
        else:
            cur[p[-1]] = rng.choice(subs)
        out.append(o)
    return out


def battery(ctx, rng, size):
    """-> list of (op, args): producing calls with shared templates, then read-only calls on their results and on
    damaged variants; everything deterministic given the RAND tape"""
    pool = K.pool(ctx.jose)
    prod = []
    pay = G.b64u(b"payload of C17")
    # single signatures of every deterministic algorithm + shared-template multi-key calls
    for name in ("oct-32", "oct-48", "oct-64", "oct-128", "RSA-2048", "EC-P256", "EC-P384", "EC-P521", "EC-K256"):
        for alg in G.algs_for(name, pool[name]):
            prod.append(("jws.sig", {"jws": {"payload": pay}, "sig": {"protected": {"alg": alg}}, "jwk": pool[name]}))
    multi = [[pool["oct-32"], pool["oct-64"]], [pool["oct-48"], pool["RSA-2048"], pool["oct-128"]],
             {"keys": [pool["oct-32"], pool["RSA-2048"]]}, [pool["EC-P256"], pool["oct-32"]], [pool["oct-32"]], {"keys": [pool["EC-P256"]]}]
    for ks in multi:
        for t in ({}, {"header": {"kid": "shared"}}, {"protected": {"typ": "JWT"}}, {"protected": {"typ": "x"}, "header": {"kid": "k"}}):
            prod.append(("jws.sig", {"jws": {"payload": pay}, "sig": t, "jwk": ks}))
            prod.append(("jws.sig_io", {"jws": {}, "sig": t, "jwk": ks, "feeds": [b"ab".hex(), b"cd".hex()]}))
    for wrap in E.WRAPS:
        for enc in (E.ENCS if wrap in ("dir", "A128KW", "ECDH-ES") else [rng.choice(E.ENCS)]):
            key = E.key_for(pool, wrap, enc, rng)
            prod.append(("jwe.enc", {"jwe": {"protected": {"alg": wrap, "enc": enc}}, "jwk": key, "pt": rng.randbytes(40).hex(),
                                     "rand": rng.randbytes(200).hex(), "_key": key}))
    # (sets of ONE key too: a set is a set - the template is copied per key and stays the caller's)
    emulti = [[pool["oct-16"], pool["oct-32"]], [pool["RSA-2048"], pool["EC-P256"], pool["oct-24"]], {"keys": [pool["EC-P384"], pool["oct-16"]]},
              [pool["EC-P256"]], {"keys": [pool["oct-16"]]}, {"keys": [pool["EC-P521"]]}]
    for ks in emulti:
        for t in ({}, {"header": {"kid": "shared"}}, {"header": {"kid": "shared", "x": {"y": [1]}}}):
            prod.append(("jwe.enc", {"jwe": {"protected": {"enc": "A128GCM"}}, "rcp": t, "jwk": ks, "pt": "00ff", "rand": rng.randbytes(400).hex(), "_key": ks}))
            prod.append(("jwe.enc_jwk", {"jwe": {"protected": {"enc": "A256GCM"}}, "rcp": t, "jwk": ks, "cek": {}, "rand": rng.randbytes(400).hex()}))
    # compression in the protected header (the read-only calls then run the inflater, and the helper that looks for "zip")
    for wrap, enc, n in (("A128KW", "A128GCM", 9000), ("dir", "A128CBC-HS256", 300), ("ECDH-ES", "A256GCM", 5000)):
        key = E.key_for(pool, wrap, enc, rng)
        prod.append(("jwe.enc", {"jwe": {"protected": {"alg": wrap, "enc": enc, "zip": "DEF"}}, "jwk": key, "pt": (b"zip " * n).hex(),
                                 "rand": rng.randbytes(200).hex(), "_key": key}))
    sent = [(o, {k: v for k, v in a.items() if not k.startswith("_")}) for o, a in prod]
    real = ctx.real(sent)
    ro = []

    def forms_of(t):
        """the token with its protected header as the object it encodes (what a caller holds before serialising), with
        other JSON types in its place, and with shared / per-entry unprotected headers added"""
        out = []
        if isinstance(t, dict) and isinstance(t.get("protected"), str):
            try:
                obj = json.loads(G.b64d(t["protected"]))
            except Exception:
                obj = None
            if isinstance(obj, dict):
                out.append(dict(t, protected=obj))
                out.append(dict(t, protected=dict(obj, extra={"nested": [1, 2]}), unprotected={"kid": "u", "zip": "DEF"}, header={"kid": "h", "x": [1]}))
            for v in (5, 1.5, [1, [2]], [], True, None, "", "!!"):
                out.append(dict(t, protected=v))
        return out
    for (o, a), r in zip(prod, real):
        if not r.get("ok"):
            continue
        if o == "jws.sig":
            tok = r["jws"]
            keys = a["jwk"]
            variants = [tok] + forms_of(tok) + mutations(rng, tok, size)
            if isinstance(tok.get("signatures"), list):
                variants += [dict(tok, signatures=[x] + tok["signatures"][1:]) for x in forms_of(tok["signatures"][0])[:6]]
            for t in variants:
                ro.append(("jws.ver", {"jws": t, "jwk": keys, "all": False}))
                ro.append(("jws.ver", {"jws": t, "jwk": keys, "all": True}))
                sigs = t.get("signatures") if isinstance(t, dict) else None
                if isinstance(sigs, list) and sigs:
                    ro.append(("jws.ver", {"jws": t, "sig": sigs[0], "jwk": keys, "all": False}))
                    ro.append(("jws.hdr", {"sig": sigs[-1]}))
                else:
                    ro.append(("jws.hdr", {"sig": t}))
                if isinstance(t, dict) and isinstance(t.get("payload"), str):
                    det = {k: v for k, v in t.items() if k != "payload"}
                    ro.append(("jws.ver_io", {"jws": det, "jwk": keys, "all": False, "feeds": [G.b64d(pay).hex()] if False else [pay.encode().hex()]}))
        elif o == "jwe.enc":
            tok = r["jwe"]
            key = a["_key"]
            for t in [tok] + forms_of(tok) + mutations(rng, tok, size):
                ro.append(("jwe.dec", {"jwe": t, "jwk": key, "rand": "00" * 600}))
                ro.append(("jwe.dec_jwk", {"jwe": t, "jwk": key, "rand": "00" * 600}))
                rc = t.get("recipients") if isinstance(t, dict) else None
                if isinstance(rc, list) and rc:
                    ro.append(("jwe.dec", {"jwe": t, "rcp": rc[-1], "jwk": key, "rand": "00" * 600}))
                    ro.append(("jwe.dec_jwk", {"jwe": t, "rcp": rc[0], "jwk": key, "rand": "00" * 600}))
                ro.append(("jwe.hdr", {"jwe": t, "rcp": rc[0] if isinstance(rc, list) and rc else t}))
    # recover CEKs for dec_cek / dec_cek_io
    dj = [(o, a) for o, a in ro if o == "jwe.dec_jwk"][::max(1, size)]
    for (o, a), r in zip(dj, ctx.real(dj)):
        if "v" in r:
            ro.append(("jwe.dec_cek", {"jwe": a["jwe"], "cek": r["v"]}))
            ct = a["jwe"].get("ciphertext") if isinstance(a["jwe"], dict) else None
            if isinstance(ct, str):
                try:
                    raw = G.b64d(ct)
                    ro.append(("jwe.dec_cek_io", {"jwe": a["jwe"], "cek": r["v"], "feeds": [raw[:7].hex(), raw[7:].hex()]}))
                except Exception:
                    pass
            for c in mutations(rng, r["v"], 2):
                ro.append(("jwe.dec_cek", {"jwe": a["jwe"], "cek": c}))
    # keys: thumbprint, equality, permission, exchange
    names = sorted(pool)
    for n in names:
        k = pool[n]
        for v in [k, K.public(k)] + mutations(rng, k, size):
            for h in ("S1", "S256", "S512", "nope"):
                ro.append(("jwk.thp", {"jwk": v, "alg": h}))
            ro.append(("jwk.thp_buf", {"jwk": v, "alg": "S256", "len": 32}))
            ro.append(("jwk.eql", {"a": v, "b": k}))
            ro.append(("jwk.prm", {"jwk": dict(v, key_ops=["sign", "verify"]) if isinstance(v, dict) else v, "op": "sign", "req": True}))
            ro.append(("jwk.prm", {"jwk": v, "op": "encrypt", "req": False}))
    ec = [n for n in names if n.startswith("EC")]
    for a in ec:
        for b in ec:
            ro.append(("jwk.exc", {"prv": pool[a], "pub": K.public(pool[b])}))
            ro.append(("jwk.exc", {"prv": dict(pool[a], alg="ECMR"), "pub": dict(K.public(pool[b]), alg="ECMR")}))
    for a in ec[:3]:
        for m in mutations(rng, pool[a], size):
            ro.append(("jwk.exc", {"prv": m, "pub": K.public(pool[a])}))
            ro.append(("jwk.exc", {"prv": pool[a], "pub": m}))
    return sent, ro


def p_pure(op, args, real):
    if isinstance(real, dict) and real.get("args_mutated"):
        return ("pure:" + op, "%s changed a JSON value it was handed: %s" % (op, json.dumps(args)[:600]))
    if isinstance(real, dict) and real.get("refs_changed"):
        return ("refs:" + op, "%s left the reference counts of its arguments changed: %s" % (op, json.dumps(args)[:600]))
    return None


def canon_b(op, args, r):
    # tokens from randomized algorithms are not comparable bit for bit (C03/C04 deal with them); here only verdicts
    if op in ("jws.sig", "jws.sig_io", "jwe.enc", "jwe.enc_jwk") and isinstance(r, dict):
        return {k: v for k, v in r.items() if k in ("ok", "args_mutated", "refs_changed", "crash", "error")}
    return r


# ---------------------------------------------------------------- (c) static storage, threads

def lib_regions(info):
    """writable sections contributed by the library's object files, from the link map: (name, address, size)"""
    mp = open(info["hx"] + ".map").read().splitlines()
    regs = []
    cur = None
    for i, ln in enumerate(mp):
        m = re.match(r"^ (\.(?:data|bss|tdata|tbss)[\w.\-]*)\s*(0x[0-9a-f]+)?\s*(0x[0-9a-f]+)?\s*(\S+)?$", ln)
        if not m:
            continue
        sec, addr, size, obj = m.groups()
        if addr is None:            # long section name: values on the next line
            m2 = re.match(r"^\s+(0x[0-9a-f]+)\s+(0x[0-9a-f]+)\s+(\S+)$", mp[i + 1]) if i + 1 < len(mp) else None
            if not m2:
                continue
            addr, size, obj = m2.groups()
        if obj and "/obj/lib_" in obj and int(size, 16) > 0 and not sec.startswith((".tbss", ".tdata")) and ".rel.ro" not in sec:
            regs.append((os.path.basename(obj) + ":" + sec, int(addr, 16), int(size, 16)))
    r = subprocess.run(["nm", info["hx"]], stdout=subprocess.PIPE, text=True)
    anchor = None
    for ln in r.stdout.splitlines():
        f = ln.split()
        if len(f) == 3 and f[2] == "hx_anchor":
            anchor = int(f[0], 16)
    if anchor is None or not regs:
        raise RuntimeError("link map / anchor not found")
    return [(n, a - anchor, s) for n, a, s in regs]


def run_globals(ctx, lines):
    info = ctx.builds["asan"]
    regs = lib_regions(info)
    snap = F.opline("globals.snap", {"regions": [[off, size] for _, off, size in regs]})
    env = dict(os.environ, ASAN_OPTIONS="detect_leaks=0:abort_on_error=0")
    r = subprocess.run([info["hx"]], input="\n".join([snap] + lines + [snap]) + "\n", stdout=subprocess.PIPE,
                       stderr=subprocess.PIPE, text=True, env=env)
    out = r.stdout.splitlines()
    ctx.evaluations += len(lines)
    if len(out) != len(lines) + 2:
        ctx.pfails.append(("globals:crash", "harness died during the static-storage run: " + r.stderr[-400:], "globals.snap", {}, {}))
        return
    a, b = json.loads(out[0])["hashes"], json.loads(out[-1])["hashes"]
    ctx.count("static-regions", len(regs))
    ctx.count("static-bytes", sum(s for _, _, s in regs))
    for (name, off, size), x, y in zip(regs, a, b):
        if x != y:
            ctx.pfails.append(("globals:" + name, "static storage of the library (%s, %d bytes) was modified by API calls after load time" % (name, size),
                               "globals.snap", {"region": name, "lines": lines[:50]}, {"before": x, "after": y}))


def run_threads(ctx, lines, ns):
    info = ctx.builds["tsan"]
    env = dict(os.environ, TSAN_OPTIONS="halt_on_error=0:report_signal_unsafe=0:exitcode=0:history_size=4")
    def go(argv):
        r = subprocess.run([info["hx"]] + argv, input="\n".join(lines) + "\n", stdout=subprocess.PIPE, stderr=subprocess.PIPE, text=True, env=env)
        return r.stdout.splitlines(), r.stderr
    seq, err0 = go([])
    for n in ns:
        out, err = go(["--threads", str(n)])
        ctx.evaluations += len(lines)
        ctx.count("threads:%d" % n, len(lines))
        if "ThreadSanitizer: data race" in err or "ThreadSanitizer: lock-order" in err:
            site = "race"
            m = re.search(r"#0 (\S+) (\S+)", err)
            k = err.find("WARNING: ThreadSanitizer")
            ctx.pfails.append((site, "ThreadSanitizer report with %d threads: %s" % (n, err[max(k, 0):max(k, 0) + 3000]), "threads", {"n": n, "lines": lines[:2000]}, {}))
            return
        if len(out) != len(seq):
            ctx.pfails.append(("threads:crash", "threaded run with %d threads died: %s" % (n, err[-600:]), "threads", {"n": n, "lines": lines[:2000]}, {}))
            return
        for i, (x, y) in enumerate(zip(seq, out)):
            if x != y and '"ok":true' in x and '"ok":true' in y and lines[i].split(" ", 1)[0] in ("jws.sig", "jws.sig_io", "jwe.enc", "jwe.enc_jwk", "jwk.gen") \
                    and '"rand"' not in lines[i][:40] and NONDET_MARK in lines[i]:
                continue        # randomized output (ECDSA / PSS / OpenSSL's own generator): only the verdict is comparable
            if x != y:
                ctx.pfails.append(("threads:result", "line %d gives %s alone and %s on %d threads: %s" % (i, x[:200], y[:200], n, lines[i][:300]),
                                   "threads", {"n": n, "lines": lines[:2000]}, {}))
                return


NONDET_MARK = "_nondet"
DET = ("jws.ver", "jws.ver_io", "jws.hdr", "jwe.hdr", "jwe.dec", "jwe.dec_jwk", "jwe.dec_cek", "jwe.dec_cek_io", "jwk.thp",
       "jwk.thp_buf", "jwk.eql", "jwk.prm", "jwk.exc")


def run(ctx):
    global BASE
    run_cfg(ctx)
    rng = ctx.rng
    size = 6 if ctx.tier == "quick" else 20
    prod, ro = battery(ctx, rng, size)
    ctx.compare(prod, p_pure, lambda o, a, r: json.dumps(a, sort_keys=True)[:3000], canon=canon_b)
    for i in range(0, len(ro), 50000):
        ctx.compare(ro[i:i + 50000], p_pure, lambda o, a, r: json.dumps(a, sort_keys=True)[:3000])
    ctx.count("battery-producing", len(prod))
    ctx.count("battery-read-only", len(ro))
    det = [(o, a) for o, a in prod if o in ("jws.sig",) and not isinstance(a["jwk"], (list,)) and "keys" not in a["jwk"]
           and a["sig"]["protected"]["alg"] in G.DETERMINISTIC]
    lines = [F.opline(o, a) for o, a in det + [x for x in ro if x[0] in DET]]
    # producing calls too: encryption is deterministic under the (thread-local) random tape for the symmetric families;
    # ECDSA / PSS signing and the asymmetric wraps are run for the race detector and compared by verdict only
    sent_prod = [(o, {k: v for k, v in a.items() if not k.startswith("_")}) for o, a in prod]
    for o, a in sent_prod:
        if o == "jwe.enc" and isinstance(a.get("jwk"), (dict, str)) and (isinstance(a["jwk"], str) or a["jwk"].get("kty") == "oct"):
            lines.append(F.opline(o, a))
        elif o in ("jws.sig", "jwe.enc", "jwe.enc_jwk") and (o, a) not in det:
            lines.append(F.opline(o, dict(a, **{NONDET_MARK: 1})))
    for t in ({"alg": "HS256"}, {"kty": "oct", "bytes": 16}, {"alg": "ES256"}, {"alg": "A128KW"}):
        lines.append(F.opline("jwk.gen", {"jwk": t, NONDET_MARK: 1}))
    for n_ in ("oct-32", "EC-P256", "RSA-2048"):
        lines.append(F.opline("jwk.pub", {"jwk": dict(K.pool(ctx.jose)[n_], key_ops=["sign", "verify"])}))
    rng.shuffle(lines)
    run_globals(ctx, lines[:6000 if ctx.tier == "quick" else 40000])
    tl = lines[:3000 if ctx.tier == "quick" else 12000]
    run_threads(ctx, tl, (2, 4, 8, 16))


def replay(ctx, rp):
    for op, args in rp.get("ops", []):
        if op == "threads":
            run_threads(ctx, args["lines"], (args["n"],))
        elif op == "globals.snap":
            run_globals(ctx, args.get("lines", []))
        else:
            ctx.compare([(op, args)], lambda o, a, r: cfg_oracle(o, a, r) or p_pure(o, a, r), None)
