"""C13 — key exchange algebra: ECDH agreement and McCallum-Relyea recovery."""
import itertools, json
import keys as K
import ecmath as M

ID = "C13"
RULE = ("jwk.exc on key pairs and triples of the pool per curve (incl. secp256k1 with explicit alg), both role orders, "
        "with/without alg, use, key_ops; expected coordinates computed by pure-Python curve arithmetic; ECMR in its three "
        "modes and the blinded recovery identity on freshly generated clients/servers/ephemerals; all mismatching "
        "combinations (curve x curve, kty, alg, missing d, denied operations); distinct = distinct (op,args); "
        "non-trivial = both keys are EC keys")
EXPLANATION = "algebra proved in any commutative group on the model; differential + independent numeric oracle."
ASSUMPTIONS = ["tools/ecmath.py (textbook affine arithmetic) as independent reference"]
BUDGET = {"quick": 300, "thorough": 1800}


def expected(prv, pub):
    """documented result, or None when the exchange must be refused; 'skip' if undecided"""
    if not (isinstance(prv, dict) and isinstance(pub, dict)):
        return None
    if prv.get("kty") != "EC" or pub.get("kty") != "EC":
        return None
    a, b = prv.get("alg"), pub.get("alg")
    if a is not None and b is not None and a != b:
        return None
    alg = a or b
    crv = prv.get("crv")
    if crv != pub.get("crv") or crv not in M.CURVES:
        return None
    if alg is None:
        if crv == "secp256k1":
            return None
        alg = "ECDH"
    if alg not in ("ECDH", "ECMR"):
        return None
    for k in (prv, pub):
        ko, use = k.get("key_ops"), k.get("use")
        if ko is not None or use is not None:
            if not (isinstance(ko, list) and "deriveKey" in ko):
                return None
    if not (M.valid_key(prv) and M.valid_key(pub)):
        return None
    c = M.CURVES[crv]
    if alg == "ECDH":
        if "d" not in prv:
            return None
        R = M.mul(c, M.scalar(prv), M.point(pub))
    else:
        if "d" in prv:
            R = M.mul(c, M.scalar(prv), M.point(pub))
        elif "d" in pub:
            R = M.add(c, M.point(prv), M.point(pub))
        else:
            R = M.add(c, M.point(prv), M.neg(c, M.point(pub)))
    if R is None:
        return None
    return M.to_jwk(crv, R)


def p_check(op, args, real):
    if op != "jwk.exc" or "crash" in real:
        return None
    exp = expected(args.get("prv"), args.get("pub"))
    if exp is None:
        if "v" in real:
            return ("exc:accepts", "exchange that must be refused succeeded: " + json.dumps(args)[:300])
        return None
    if "v" not in real:
        return ("exc:refuses", "valid exchange refused: " + json.dumps(args)[:300])
    if real["v"] != exp:
        return ("exc:value", "result %s, independent computation %s" % (json.dumps(real["v"])[:200], json.dumps(exp)[:200]))
    if "d" in real["v"]:
        return ("exc:private", "result carries a private member")
    return None


def nontrivial(op, args, real):
    a, b = args.get("prv"), args.get("pub")
    return json.dumps(args, sort_keys=True) if isinstance(a, dict) and isinstance(b, dict) and a.get("kty") == b.get("kty") == "EC" else None


def run(ctx):
    rng = ctx.rng
    pool = K.pool(ctx.jose)
    ec = {n: k for n, k in pool.items() if k["kty"] == "EC"}
    # a second key on secp256k1 (the pool has one): made by the independent arithmetic, so that ECDH and the ECMR
    # add / subtract modes between two DISTINCT keys are checked on that curve as well
    ck = M.CURVES["secp256k1"]
    dk = int.from_bytes(rng.randbytes(40), "big") % (ck["n"] - 1) + 1
    ec["EC-K256-b"] = dict(M.to_jwk("secp256k1", M.mul(ck, dk, (ck["gx"], ck["gy"]))), d=M.b64u(dk.to_bytes(32, "big")))
    names = list(ec)
    ops = []
    decor = [{}, {"alg": "ECDH"}, {"alg": "ECMR"}, {"alg": "ES256"}, {"alg": "bogus"}, {"key_ops": ["deriveKey"]}, {"key_ops": ["sign"]},
             {"use": "enc"}, {"use": "sig", "key_ops": ["deriveKey"]}, {"key_ops": []}, {"alg": 5}]
    for a, b in itertools.product(names, repeat=2):
        for da, db in ([({}, {})] + [(rng.choice(decor), rng.choice(decor)) for _ in range(6)] +
                       [({"alg": "ECMR"}, {}), ({}, {"alg": "ECMR"}), ({"alg": "ECDH"}, {"alg": "ECDH"}), ({"alg": "ECMR"}, {"alg": "ECDH"})]):
            for pa, pb in ((ec[a], K.public(ec[b])), (ec[a], ec[b]), (K.public(ec[a]), ec[b]), (K.public(ec[a]), K.public(ec[b]))):
                ops.append(("jwk.exc", {"prv": dict(pa, **da), "pub": dict(pb, **db)}))
    # other key types, junk
    for o in (pool["oct-32"], pool["RSA-2048"], 5, None, {}, {"kty": "EC"}, {"kty": "EC", "crv": "P-256"}, {"kty": "ec", **{k: v for k, v in ec["EC-P256"].items() if k != "kty"}}):
        ops.append(("jwk.exc", {"prv": ec["EC-P256"], "pub": o}))
        ops.append(("jwk.exc", {"prv": o, "pub": K.public(ec["EC-P256"])}))
        ops.append(("jwk.exc", {"prv": o, "pub": o}))
    ops.append(("jwk.exc", {"prv": ec["EC-P256"]}))
    ops.append(("jwk.exc", {"pub": ec["EC-P256"]}))
    # invalid key material in every role and mode: a point off the curve (y+1, x+1, origin), a private value that does not
    # belong to the point, a key without its coordinates, the point of a key on another curve under this curve's name -
    # as local and as remote operand, with ECDH and with the three ECMR modes (multiply / add / subtract)
    def bump(k, m):
        c = M.CURVES[k["crv"]]
        v = (int.from_bytes(M.b64d(k[m]), "big") + 1) % c["p"]
        return dict(k, **{m: M.b64u(v.to_bytes(c["len"], "big"))})
    for n_ in names:
        good = ec[n_]
        peers = [ec[m_] for m_ in names if m_ != n_ and ec[m_]["crv"] == good["crv"]] or [good]
        peer = peers[0]
        other = next(ec[m_] for m_ in names if ec[m_]["crv"] != good["crv"] and len(M.b64d(ec[m_]["x"])) == len(M.b64d(good["x"]))) if any(
            ec[m_]["crv"] != good["crv"] and len(M.b64d(ec[m_]["x"])) == len(M.b64d(good["x"])) for m_ in names) else None
        bad = [("y+1", bump(good, "y")), ("x+1", bump(good, "x")), ("origin", dict(good, x=M.b64u(bytes(len(M.b64d(good["x"])))), y=M.b64u(bytes(len(M.b64d(good["y"])))))),
               ("d of another key", dict(good, d=peer["d"]) if peer is not good else dict(good, d=M.b64u((M.scalar(good) + 1).to_bytes(len(M.b64d(good["d"])), "big")))),
               ("no coordinates", {k_: v_ for k_, v_ in good.items() if k_ not in ("x", "y")}), ("no y", {k_: v_ for k_, v_ in good.items() if k_ != "y"})]
        if other is not None:
            bad.append(("point of a %s key" % other["crv"], dict(good, x=other["x"], y=other["y"])))
        for label, b in bad:
            for alg in (None, "ECDH", "ECMR"):
                deco = {} if alg is None else {"alg": alg}
                for bb in (b, {k_: v_ for k_, v_ in b.items() if k_ != "d"}):
                    for pp in (peer, K.public(peer)):
                        ops.append(("jwk.exc", {"prv": dict(bb, **deco), "pub": dict(pp, **deco)}))
                        ops.append(("jwk.exc", {"prv": dict(pp, **deco), "pub": dict(bb, **deco)}))
    # key_ops shapes and the kty spelling together with an explicit algorithm
    base = ec["EC-P256"]
    peer = K.public(ec["EC-P256-b"])
    for ko in (["sign", "deriveKey"], ["deriveBits"], [5, "deriveKey"], "deriveKey", ["derivekey"], ["deriveKey", "deriveKey"]):
        for alg in (None, "ECDH", "ECMR"):
            ops.append(("jwk.exc", {"prv": dict(base, key_ops=ko, **({} if alg is None else {"alg": alg})), "pub": peer}))
            ops.append(("jwk.exc", {"prv": base, "pub": dict(peer, key_ops=ko, **({} if alg is None else {"alg": alg}))}))
    for kty in ("ec", "Ec", "EC ", "ECC"):
        for alg in ("ECDH", "ECMR"):
            ops.append(("jwk.exc", {"prv": dict(base, kty=kty, alg=alg), "pub": dict(peer, kty=kty)}))
            ops.append(("jwk.exc", {"prv": dict(base, alg=alg), "pub": dict(peer, kty=kty)}))
    real, _ = ctx.compare(ops, p_check, nontrivial)
    # symmetry of ECDH on the real results
    res = {json.dumps(a, sort_keys=True): r for (o, a), r in zip(ops, real)}
    for (o, a), r in zip(ops, real):
        if "v" in r and isinstance(a.get("prv"), dict) and isinstance(a.get("pub"), dict) and "d" in a["prv"] and "d" in a["pub"] \
                and a["prv"].get("alg") in (None, "ECDH") and a["pub"].get("alg") in (None, "ECDH"):
            sw = res.get(json.dumps({"prv": a["pub"], "pub": a["prv"]}, sort_keys=True))
            if sw is not None and "v" in sw and sw["v"] != r["v"]:
                ctx.pfails.append(("exc:symmetry", "roles swapped give a different key: " + json.dumps(a)[:200], o, a, r))
    # McCallum-Relyea recovery: fresh client / server / ephemeral keys per curve, on the implementation
    n = 30 if ctx.tier == "quick" else 600
    gen_ops = []
    for crv in ("P-256", "P-384", "P-521"):
        for _ in range(n // 3 * 3):
            gen_ops.append(("jwk.gen", {"jwk": {"alg": "ECMR", "crv": crv}}))
    gen_real = ctx.real(gen_ops)
    ks = [r["jwk"] for r in gen_real if r.get("ok")]
    trip = [ks[i:i + 3] for i in range(0, len(ks) - 2, 3)]
    s1 = []
    for C, S, E_ in trip:
        s1.append(("jwk.exc", {"prv": K.public(C), "pub": E_}))          # C + E  (remote private: addition)
        s1.append(("jwk.exc", {"prv": E_, "pub": K.public(S)}))          # e * S
        s1.append(("jwk.exc", {"prv": C, "pub": K.public(S)}))           # c * S  (the key to recover)
    r1, _ = ctx.compare(s1, p_check, nontrivial)
    s2, meta = [], []
    for i, (C, S, E_) in enumerate(trip):
        x, y, z = r1[3 * i], r1[3 * i + 1], r1[3 * i + 2]
        if "v" in x and "v" in y and "v" in z:
            s2.append(("jwk.exc", {"prv": S, "pub": dict(x["v"], alg="ECMR")}))   # s * (C + E)
            meta.append((y["v"], z["v"]))
    r2, _ = ctx.compare(s2, p_check, nontrivial)
    s3, want = [], []
    for (yv, zv), r in zip(meta, r2):
        if "v" in r:
            s3.append(("jwk.exc", {"prv": dict(r["v"], alg="ECMR"), "pub": dict(yv, alg="ECMR")}))   # s(C+E) - eS
            want.append(zv)
    r3, _ = ctx.compare(s3, p_check, nontrivial)
    for (o, a), r, zv in zip(s3, r3, want):
        if r.get("v") != zv:
            ctx.pfails.append(("exc:recovery", "blinded recovery does not reproduce c*S: " + json.dumps(a)[:300], o, a, r))
    ctx.count("recoveries", len(s3))


def replay(ctx, rp):
    ops = [(o, a) for o, a in rp.get("ops", [])] + [(d["op"], d["args"]) for d in rp.get("correspondence_disagreements", [])]
    ctx.compare(ops, p_check, nontrivial)
