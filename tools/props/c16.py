"""C16 — serialization shape stays well-formed across any history of additions."""
import copy, itertools, json

ID = "C16"
RULE = ("misc.entity_hist: all histories of length <=4 (quick) / <=5 (thorough) over a set of entry objects (with "
        "and without each listed member, encoded/object protected, header) from empty, flattened, general(1..3) and "
        "empty-list start objects, for the JWS member set and the JWE member set, plus malformed lists; real "
        "sign/wrap histories with verification of every earlier entry after every step (run_real); distinct = "
        "distinct histories; non-trivial = at least two successful additions")
EXPLANATION = ("layout invariant proved on the model of add_entity for unbounded histories; exhaustive short "
               "histories tie the model to lib/openssl/misc.c; a direct layout oracle is evaluated on the real objects")
ASSUMPTIONS = []
BUDGET = {"quick": 300, "thorough": 1800}

SETS = {"jws": ("signatures", ["signature", "protected", "header"]),
        "jwe": ("recipients", ["header", "encrypted_key"])}


def entries(kind):
    if kind == "jws":
        return [{"signature": "s1"}, {"signature": "s2", "protected": "cDI"}, {"signature": "s3", "header": {"kid": 3}},
                {"signature": "s4", "protected": "cDQ", "header": {"a": [1]}}, {"protected": "only"}, {}, {"x": 1}]
    return [{"encrypted_key": "k1"}, {"encrypted_key": "k2", "header": {"alg": "A"}}, {"header": {"alg": "dir"}}, {},
            {"encrypted_key": "k4", "header": {"epk": {"kty": "EC"}}, "extra": 1}]


def starts(kind):
    pl, keys = SETS[kind]
    e = entries(kind)
    base = {"payload": "cGF5"} if kind == "jws" else {"ciphertext": "Y3Q", "iv": "aXY", "tag": "dGFn", "protected": "cA"}
    if kind == "jwe":
        # for JWE "protected" is not a listed member
        pass
    out = [dict(base), dict(base, **e[0]), dict(base, **e[1]), dict(base, **{pl: []}),
           dict(base, **{pl: [e[0]]}), dict(base, **{pl: [e[0], e[1]]}), dict(base, **{pl: [e[0], e[1], e[2]]}),
           dict(base, **{pl: []}, **e[0]),
           # malformed / hostile
           dict(base, **{pl: 5}), dict(base, **{pl: {}}), dict(base, **{pl: None}), dict(base, **{pl: [e[0]]}, **e[1]), 5, [], None]
    return out


def members(kind, o):
    return {k: o[k] for k in SETS[kind][1] if isinstance(o, dict) and k in o}


def layout(kind, root):
    """-> ('flat', [entry]) | ('general', entries) | ('empty', []) | ('bad', why)"""
    pl, keys = SETS[kind]
    if not isinstance(root, dict):
        return ("bad", "not an object")
    top = members(kind, root)
    if pl in root:
        if not isinstance(root[pl], list):
            return ("bad", "list is not an array")
        if top:
            return ("bad", "listed members at top level together with the list")
        if len(root[pl]) == 0:
            return ("bad", "empty list left behind")
        return ("general", root[pl])
    if top:
        return ("flat", [top])
    return ("empty", [])


def p_check(op, args, real):
    if op != "misc.entity_hist" or "crash" in real:
        return None
    kind = args["kind"]
    start = args["start"]
    st = layout(kind, start) if not (isinstance(start, dict) and start.get(SETS[kind][0]) == []) else \
        layout(kind, {k: v for k, v in start.items() if k != SETS[kind][0]})
    if st[0] == "bad":
        return None          # hostile start objects: only memory-safety matters (C09)
    cur = list(st[1])
    for obj, after in zip(args["objs"], real["steps"]):
        if after is None:
            if isinstance(obj, dict):
                return ("entity:refused", "a well-formed addition was refused: " + json.dumps(args)[:300])
            continue
        lay = layout(kind, after)
        if lay[0] == "bad":
            return ("entity:layout", lay[1] + " after adding %s :: %s" % (json.dumps(obj), json.dumps(args)[:300]))
        m = members(kind, obj)
        if cur or m:
            # the new entry: the whole object in general form, its listed members in flattened form
            exp_n = len(cur) + 1
            if lay[0] == "general":
                got = lay[1]
                if len(got) != exp_n:
                    return ("entity:count", "expected %d entries, found %d :: %s" % (exp_n, len(got), json.dumps(args)[:300]))
                for i, (a, b) in enumerate(zip(cur, got[:-1])):
                    if members(kind, b) != members(kind, a) or (isinstance(a, dict) and set(b) - set(a) - set(SETS[kind][1])):
                        return ("entity:moved", "entry %d changed: %s -> %s" % (i, json.dumps(a), json.dumps(b)))
                if got[-1] != obj:
                    return ("entity:order", "last entry is not the one just added")
                cur = list(got)
            elif lay[0] == "flat":
                if cur:
                    return ("entity:layout", "flattened form although %d entries were there: %s" % (len(cur), json.dumps(args)[:300]))
                if lay[1][0] != m:
                    return ("entity:flat", "flattened entry %s != added %s" % (json.dumps(lay[1][0]), json.dumps(m)))
                cur = [m]
            else:
                return ("entity:lost", "entry lost: %s" % json.dumps(args)[:300])
        # non-listed members of the root never change, apart from what a flattened addition merges in
        if isinstance(start, dict):
            for k, v in start.items():
                if k not in SETS[kind][1] and k != SETS[kind][0] and after.get(k) != v and not (isinstance(obj, dict) and k in obj):
                    return ("entity:frame", "top-level member %r changed" % k)
    return None


def nontrivial(op, args, real):
    return json.dumps(args, sort_keys=True) if sum(1 for s in real.get("steps", []) if s is not None) >= 2 else None



# --------------------------------------------------------------------------
# real signing / wrapping histories: every earlier entry stays usable, order kept,
# an already-encoded protected header is carried over byte for byte
# --------------------------------------------------------------------------
import keys as K
import jwegen as E
import jwsgen as G
from props import c03 as C03
from props import c04 as C04
from props import c15 as C15


def jws_entries(tok):
    if isinstance(tok.get("signatures"), list):
        return tok["signatures"]
    m = members("jws", tok)
    return [m] if m else []


def jwe_entries(tok):
    if isinstance(tok.get("recipients"), list):
        return tok["recipients"]
    m = members("jwe", tok)
    return [m] if m else []


def check_step(kind, before, after, tmpl, site_args):
    """direct oracle for one successful addition on real objects"""
    ents = jws_entries if kind == "jws" else jwe_entries
    b = ents({k: v for k, v in before.items() if not (k == SETS[kind][0] and v == [])})
    lay = layout(kind, after)
    if lay[0] == "bad":
        return ("real:layout", "%s after a successful addition: %s" % (lay[1], json.dumps(after)[:300]))
    a = ents(after)
    if len(a) != len(b) + 1:
        return ("real:count", "%d entries before, %d after one addition: %s" % (len(b), len(a), json.dumps(after)[:300]))
    if (lay[0] == "flat") != (len(a) == 1):
        return ("real:layout", "%s form with %d entries" % (lay[0], len(a)))
    for i, (x, y) in enumerate(zip(b, a)):
        if members(kind, x) != members(kind, y):
            return ("real:moved", "entry %d changed by a later addition: %s -> %s" % (i, json.dumps(x)[:200], json.dumps(y)[:200]))
    new = a[-1]
    if kind == "jws":
        tp = (tmpl or {}).get("protected")
        if isinstance(tp, str) and new.get("protected") != tp:
            return ("real:protected-reencoded", "template's encoded protected header %s became %s" % (tp, new.get("protected")))
        if isinstance(tp, dict):
            d = C15.as_obj(new.get("protected", "ABSENT")) or {}
            for k, v in tp.items():
                if d.get(k) != v:
                    return ("real:protected-altered", "protected member %r of the template is not in the encoded header: %s" % (k, json.dumps(new)[:200]))
        for k, v in ((tmpl or {}).get("header") or {}).items():
            if (new.get("header") or {}).get(k) != v:
                return ("real:header-altered", "unprotected header member %r lost" % k)
    else:
        if isinstance(before.get("protected"), str) and after.get("protected") != before["protected"]:
            return ("real:protected-reencoded", "the JWE's encoded protected header %s became %s" % (before["protected"], after.get("protected")))
    for k, v in before.items():
        if k not in SETS[kind][1] and k != SETS[kind][0] and k != "protected" and after.get(k) != v:
            return ("real:frame", "top-level member %r changed" % k)
    return None


def run_real(ctx):
    rng = ctx.rng
    pool = K.pool(ctx.jose)
    quick = ctx.tier == "quick"
    kid = lambda i: "k%d" % i
    signers = [("HS256", "oct-32"), ("HS512", "oct-64"), ("ES256", "EC-P256"), ("ES384", "EC-P384"), ("ES512", "EC-P521"),
               ("RS256", "RSA-2048"), ("PS256", "RSA-2048-b"), ("ES256K", "EC-K256"), ("HS384", "oct-48")]

    def tmpl_for(alg, i, form):
        if form == "none":
            return None, True
        if form == "empty":
            return {}, True
        if form == "prot-obj":
            return {"protected": {"alg": alg, "kid": kid(i)}}, True
        if form == "prot-enc":
            return {"protected": C15.enc({"alg": alg, "kid": kid(i)})}, True
        if form == "prot-enc+hdr":
            return {"protected": C15.enc({"kid": kid(i)}), "header": {"alg": alg, "n": i}}, True
        if form == "hdr":
            return {"header": {"alg": alg, "kid": kid(i)}}, True
        if form == "prot-obj-noalg":
            return {"protected": {"kid": kid(i)}, "header": {"n": [i]}}, True
        if form == "prot-enc-noalg":      # the inferred algorithm cannot be recorded: must be refused, nothing altered
            return {"protected": C15.enc({"kid": kid(i)})}, False
        if form == "prot-enc-empty-noalg":
            return {"protected": "e30", "header": {"kid": kid(i)}}, False
        raise KeyError(form)
    forms = ["none", "empty", "prot-obj", "prot-enc", "prot-enc+hdr", "hdr", "prot-obj-noalg", "prot-enc-noalg", "prot-enc-empty-noalg"]
    hist = []
    starts_ = [{"payload": "cGF5bG9hZA"}, {"payload": "cGF5bG9hZA", "signatures": []}, {"payload": ""}]
    # every template form at every position of a 3-step history, plus random longer ones
    for pos in range(3):
        for form in forms:
            steps = [(rng.choice(signers), "prot-obj") for _ in range(3)]
            steps[pos] = (rng.choice(signers), form)
            hist.append({"jws": dict(rng.choice(starts_)), "steps": steps, "keys": [], "i": 0})
    for _ in range(25 if quick else 300):
        n = rng.randrange(2, 7)
        hist.append({"jws": dict(rng.choice(starts_)), "steps": [(rng.choice(signers), rng.choice(forms)) for _ in range(n)], "keys": [], "i": 0})
    step = 0
    while True:
        live = [h for h in hist if h["i"] < len(h["steps"])]
        if not live:
            break
        ops, meta = [], []
        for h in live:
            (alg, kn), form = h["steps"][h["i"]]
            t, ok = tmpl_for(alg, h["i"], form)
            a = {"jws": h["jws"], "jwk": pool[kn], "_why": "history step %d, template %s" % (h["i"], form)}
            if t is not None:
                a["sig"] = t
            if ok:
                a["_expect_ok"] = True
            else:
                a["_must_fail"] = True
            ops.append(("jws.sig", a))
            meta.append((h, t, ok, kn))
        real, model = C15.cmp_sig(ctx, ops, C15.p_recorded_sig)
        ver = []
        for (h, t, ok, kn), r in zip(meta, real):
            h["i"] += 1
            if not r.get("ok"):
                continue
            pf = check_step("jws", h["jws"], r["jws"], t, None)
            if pf:
                ctx.pfails.append((pf[0], pf[1] + " :: " + json.dumps({"before": h["jws"], "sig": t})[:400], "jws.sig",
                                   {"jws": h["jws"], "sig": t, "jwk": pool[kn]} if t is not None else {"jws": h["jws"], "jwk": pool[kn]}, r))
            h["jws"] = r["jws"]
            h["keys"].append(kn)
            # every signature added so far still verifies, under its key alone and under all keys together
            for j, k in enumerate(h["keys"]):
                ver.append(("jws.ver", {"jws": h["jws"], "jwk": K.public(pool[k]) if pool[k]["kty"] != "oct" else pool[k], "all": False,
                                        "_expect": True, "_why": "entry %d of %d after step %d" % (j, len(h["keys"]), h["i"])}))
            ver.append(("jws.ver", {"jws": h["jws"], "jwk": [pool[k] for k in h["keys"]], "all": True, "_expect": True,
                                    "_why": "all %d keys after step %d" % (len(h["keys"]), h["i"])}))
        C15.cmp_sig(ctx, ver, C03.p_ver)
        ctx.count("real:jws-steps", len(ops))
        ctx.count("real:jws-verifications", len(ver))
        step += 1

    # ---- one call, several keys, ONE shared template object: every key gets its own entry ----
    ops, meta = [], []
    tmpls = [None, {}, {"protected": {"kid": "shared"}}, {"header": {"kid": "shared"}}, {"protected": {"typ": "JWT"}, "header": {"n": 1}}]
    groups = [["oct-32", "oct-48", "oct-64"], ["EC-P256", "oct-32"], ["EC-P256", "EC-P384", "EC-P521"], ["oct-32", "RSA-2048"], ["EC-P256", "EC-P256-b"]]
    for g in groups:
        for t in tmpls:
            for start in ({"payload": "cGF5bG9hZA"}, None):
                a = {"jws": start, "jwk": [pool[k] for k in g], "_expect_ok": True, "_inferred": True, "_why": "%d keys, one template %s" % (len(g), json.dumps(t))}
                if start is None:
                    continue
                if t is not None:
                    a["sig"] = t
                ops.append(("jws.sig", a))
                meta.append((g, t))
    real, model = C15.cmp_sig(ctx, ops, C03.p_sig)
    ver = []
    for (g, t), (o, a), r in zip(meta, ops, real):
        if not r.get("ok"):
            continue
        ents = jws_entries(r["jws"])
        if len(ents) != len(g):
            ctx.pfails.append(("real:count", "%d keys signed in one call, %d entries: %s" % (len(g), len(ents), json.dumps(r["jws"])[:300]), o, C04.strip(a), r))
            continue
        if len({json.dumps(e, sort_keys=True) for e in ents}) != len(ents):
            ctx.pfails.append(("real:shared-entry", "two entries of one multi-key call are the same object: %s" % json.dumps(r["jws"])[:300], o, C04.strip(a), r))
        for j, k in enumerate(g):
            ver.append(("jws.ver", {"jws": r["jws"], "sig": ents[j], "jwk": pool[k], "all": False, "_expect": True, "_why": "entry %d of a %d-key call" % (j, len(g))}))
        ver.append(("jws.ver", {"jws": r["jws"], "jwk": [pool[k] for k in g], "all": True, "_expect": True, "_why": "all keys of a %d-key call" % len(g)}))
    C15.cmp_sig(ctx, ver, C03.p_ver)
    ctx.count("real:multi-key-sig", len(ops))
    fresh = lambda n: {"kty": "oct", "k": G.b64u(rng.randbytes(n))}
    wgroups = [("A128KW", [fresh(16), fresh(16), fresh(16)]), ("A128GCMKW", [fresh(16), fresh(16)]), ("ECDH-ES+A128KW", [pool["EC-P256"], pool["EC-P256-b"]]),
               ("PBES2-HS256+A128KW", ["pw one", "pw two"]), ("RSA-OAEP", [pool["RSA-2048"], pool["RSA-2048-b"]])]
    ops, meta = [], []
    for w, ks in wgroups:
        for t in ({"header": {"alg": w}}, {"header": {"alg": w, "cty": "x"}}):
            jwe = {"protected": {"enc": "A128GCM"}}
            if w.startswith("PBES2"):
                jwe["protected"]["p2c"] = 1000
            ops.append(("jwe.enc", {"jwe": jwe, "rcp": t, "jwk": list(ks), "pt": b"shared template".hex(), "rand": rng.randbytes(600).hex(),
                                    "_wrap": "ECDH-ES" if w.startswith(("ECDH", "RSA")) else w, "_zip": False, "_expect_ok": True}))
            meta.append(ks)
    real, model = C04.cmp(ctx, ops, C04.p_enc)
    dec = []
    for ks, (o, a), r in zip(meta, ops, real):
        if not r.get("ok"):
            continue
        ents = jwe_entries(r["jwe"])
        if len(ents) != len(ks):
            ctx.pfails.append(("real:count", "%d keys wrapped in one call, %d recipients" % (len(ks), len(ents)), o, C04.strip(a), r))
            continue
        if len({json.dumps(e, sort_keys=True) for e in ents}) != len(ents):
            ctx.pfails.append(("real:shared-entry", "two recipients of one multi-key call are identical: %s" % json.dumps(r["jwe"])[:300], o, C04.strip(a), r))
        for j, k in enumerate(ks):
            dec.append(("jwe.dec", {"jwe": r["jwe"], "rcp": ents[j], "jwk": k, "rand": "00" * 600, "_pt": a["pt"], "_why": "recipient %d of a %d-key call" % (j, len(ks))}))
    C04.cmp(ctx, dec, C04.p_dec)
    ctx.count("real:multi-key-enc", len(ops))

    # ---- JWE: recipients added one by one, content encryption, then one more recipient (re-wrap) ----
    wraps = [("A128KW", "oct-16"), ("A192KW", "oct-24"), ("A256GCMKW", "oct-32"), ("ECDH-ES+A128KW", "EC-P256"),
             ("ECDH-ES+A256KW", "EC-P521"), ("RSA-OAEP", "RSA-2048"), ("RSA-OAEP-256", "RSA-2048-b"), ("PBES2-HS256+A128KW", "pw")]
    def key(n):
        return "correct horse battery" if n == "pw" else pool[n]
    hist = []
    for _ in range(20 if quick else 250):
        n = rng.randrange(1, 5)
        ce = rng.choice(E.ENCS)
        start = {"protected": {"enc": ce}}
        if rng.random() < 0.3:
            start["recipients"] = []
        if rng.random() < 0.3:
            start["unprotected"] = {"kid": "shared"}
        sel = [rng.choice(wraps) for _ in range(n)]
        # RSA recipients last: the recorded RSA1_5/RSA shadowing finding is not this property's business
        hist.append({"jwe": start, "cek": {}, "sel": sel, "i": 0, "pt": rng.randbytes(rng.choice([0, 1, 16, 100])), "dead": False})
    for step in range(4):
        live = [h for h in hist if h["i"] < len(h["sel"]) and not h["dead"]]
        if not live:
            break
        ops = []
        for h in live:
            w, kn = h["sel"][h["i"]]
            # the recipient template names the algorithm, or leaves it to be inferred from the key (where the inference for
            # this key gives this algorithm): none, empty, or only other members
            inferable = (w, kn) in (("A128KW", "oct-16"), ("A192KW", "oct-24"), ("ECDH-ES+A128KW", "EC-P256"), ("ECDH-ES+A256KW", "EC-P521"), ("RSA-OAEP", "RSA-2048"))
            forms = [{"header": {"alg": w, "kid": kid(h["i"])}}, {"header": {"alg": w}}] + ([None, {}, {"header": {"kid": kid(h["i"])}}] if inferable else [])
            rcp = rng.choice(forms)
            h["rcp"] = rcp
            a_ = {"jwe": h["jwe"], "jwk": key(kn), "cek": h["cek"], "rand": rng.randbytes(200).hex(), "_wrap": w, "_expect_ok": True}
            if rcp is not None:
                a_["rcp"] = rcp
            ops.append(("jwe.enc_jwk", a_))
        real, model = C04.cmp(ctx, ops, C04.p_enc)
        for h, r in zip(live, real):
            h["i"] += 1
            if not r.get("ok"):
                h["dead"] = True
                continue
            pf = check_step("jwe", h["jwe"], r["jwe"], h["rcp"], None)
            if not pf:
                # the entry just added names, in its own header, the algorithm applied (given or inferred)
                new_ = jwe_entries(r["jwe"])[-1]
                if (new_.get("header") or {}).get("alg") != h["sel"][h["i"] - 1][0]:
                    pf = ("real:alg-recorded", "the entry added for %s names %r in its header: %s" % (h["sel"][h["i"] - 1][0], (new_.get("header") or {}).get("alg"), json.dumps(new_)[:200]))
            if pf:
                ctx.pfails.append((pf[0], pf[1], "jwe.enc_jwk", {"jwe": h["jwe"], "rcp": h["rcp"], "jwk": key(h["sel"][h["i"] - 1][1]), "cek": h["cek"]}, r))
            h["jwe"], h["cek"] = r["jwe"], r["cek"]
        ctx.count("real:jwe-steps", len(ops))
    done = [h for h in hist if not h["dead"]]
    ops = [("jwe.enc_cek", {"jwe": h["jwe"], "cek": h["cek"], "pt": h["pt"].hex(), "rand": rng.randbytes(64).hex(), "_expect_ok": True}) for h in done]
    real, model = C04.cmp(ctx, ops, C04.p_enc)
    dec, more, keep = [], [], []
    for h, r in zip(done, real):
        if not r.get("ok"):
            continue
        h["jwe"] = r["jwe"]
        for j, (w, kn) in enumerate(h["sel"]):
            dec.append(("jwe.dec", {"jwe": h["jwe"], "rcp": jwe_entries(h["jwe"])[j], "jwk": key(kn), "rand": "00" * 600, "_pt": h["pt"].hex(),
                                    "_why": "recipient %d (%s) of %d" % (j, w, len(h["sel"]))}))
        w, kn = rng.choice(wraps)
        more.append(("jwe.enc_jwk", {"jwe": h["jwe"], "rcp": {"header": {"alg": w, "kid": "late"}}, "jwk": key(kn), "cek": h["cek"],
                                     "rand": rng.randbytes(200).hex(), "_wrap": w, "_expect_ok": True}))
        keep.append((h, w, kn))
    C04.cmp(ctx, dec, C04.p_dec)
    real, model = C04.cmp(ctx, more, C04.p_enc)
    dec = []
    for (h, w, kn), (op, a), r in zip(keep, more, real):
        if not r.get("ok"):
            continue
        pf = check_step("jwe", h["jwe"], r["jwe"], a["rcp"], None)
        if pf:
            ctx.pfails.append((pf[0], pf[1] + " (recipient added after content encryption)", "jwe.enc_jwk", C04.strip(a), r))
        tok = r["jwe"]
        allk = h["sel"] + [(w, kn)]
        for j, (w2, kn2) in enumerate(allk):
            dec.append(("jwe.dec", {"jwe": tok, "rcp": jwe_entries(tok)[j], "jwk": key(kn2), "rand": "00" * 600, "_pt": h["pt"].hex(),
                                    "_why": "recipient %d (%s) of %d after a late addition" % (j, w2, len(allk))}))
    C04.cmp(ctx, dec, C04.p_dec)
    ctx.count("real:jwe-decryptions", len(dec))

    # ---- direct key agreement / direct encryption fix the content key: first recipient only ----
    # (w, key, must succeed?)  A direct recipient added to an object whose content key is already fixed must be refused:
    # it would either replace the content key of the earlier recipients or be unable to decrypt
    dirk = {"kty": "oct", "k": G.b64u(rng.randbytes(16)), "alg": "A128GCM"}
    seqs = [[("ECDH-ES", pool["EC-P256"], True), ("A128KW", pool["oct-16"], True), ("A256GCMKW", pool["oct-32"], True)],
            [("A128KW", pool["oct-16"], True), ("ECDH-ES", pool["EC-P256"], False), ("A192KW", pool["oct-24"], True)],
            [("ECDH-ES+A128KW", pool["EC-P384"], True), ("ECDH-ES", pool["EC-P384"], False)],
            [("ECDH-ES", pool["EC-P521"], True), ("ECDH-ES", pool["EC-P256"], False), ("RSA-OAEP", pool["RSA-2048"], True)],
            [("dir", dirk, True), ("A128KW", pool["oct-16"], True), ("ECDH-ES+A256KW", pool["EC-P521"], True)],
            [("ECDH-ES", pool["EC-K256"], True), ("PBES2-HS256+A128KW", "pw", True)],
            [("A128KW", pool["oct-16"], True), ("dir", dirk, False)],
            [("dir", dirk, True), ("dir", dict(dirk, k=G.b64u(rng.randbytes(16))), False), ("dir", dirk, True)]]
    for start in ({"protected": {"enc": "A128GCM"}}, {"protected": {"enc": "A128GCM"}, "recipients": []}):
        for seq in seqs:
            jwe, cek, added = copy.deepcopy(start), {}, []
            for w, k, must in seq:
                a = {"jwe": jwe, "rcp": {"header": {"alg": w, "kid": kid(len(added))}}, "jwk": k, "cek": cek, "rand": rng.randbytes(200).hex(), "_wrap": w}
                r = C04.cmp(ctx, [("jwe.enc_jwk", a)], lambda *x: None)[0][0]
                if bool(r.get("ok")) != must:
                    ctx.pfails.append(("real:direct-not-first" if not must else "real:refused", "%s as recipient %d of %s: %s" % (
                        w, len(added), [x[0] for x in seq], "accepted although the content key is already fixed" if not must else "refused"), "jwe.enc_jwk", C04.strip(a), r))
                if r.get("ok"):
                    pf = check_step("jwe", jwe, r["jwe"], a["rcp"], None)
                    if pf:
                        ctx.pfails.append((pf[0], pf[1], "jwe.enc_jwk", C04.strip(a), r))
                    jwe, cek = r["jwe"], r["cek"]
                    added.append((w, k))
            r = C04.cmp(ctx, [("jwe.enc_cek", {"jwe": jwe, "cek": cek, "pt": b"direct first".hex(), "rand": rng.randbytes(64).hex(), "_expect_ok": True})], C04.p_enc)[0][0]
            if r.get("ok"):
                ents = jwe_entries(r["jwe"])
                C04.cmp(ctx, [("jwe.dec", {"jwe": r["jwe"], "rcp": ents[j], "jwk": k, "rand": "00" * 600, "_pt": b"direct first".hex(),
                                           "_why": "recipient %d (%s) of %s" % (j, w, [x[0] for x in added])}) for j, (w, k) in enumerate(added) if j < len(ents)], C04.p_dec)
    ctx.count("real:direct-first-sequences", 2 * len(seqs))

    # ---- the command-line tool adds signatures to a token it is handed in any spelling (JSON or compact; inline, file,
    #      stdin - compact input from a file or stdin is streamed field by field): same form rules, step by step ----
    from props import c18 as C18
    pay = b"payload of a token signed again"
    first = ctx.real([("jws.sig", {"jws": {"payload": G.b64u(pay)}, "sig": {"protected": {"alg": "HS256"}}, "jwk": pool["oct-32"]})])[0]
    ncli = 0
    if first.get("ok"):
        for flabel, iargv, files, stdin in C18.input_forms(C18.js(first["jws"]), C18.compact_of(first["jws"]), rng):
            cur, keys = first["jws"], ["oct-32"]
            for k2, tmpl in (("EC-P256", None), ("oct-64", {"protected": {"alg": "HS512"}, "header": {"kid": "third"}})):
                text = C18.js(cur)
                if len(keys) == 1:
                    ia, fs, sin = iargv, dict(files), stdin
                else:       # a general-form token has no compact spelling: hand it over the same way (inline / file / stdin) as JSON
                    ia, fs, sin = (["-i", text], {}, None) if flabel.startswith("inline") else (["-i", "tok.json"], {"tok.json": C18.hx(text)}, None) \
                        if flabel.startswith("file") else (["-i", "-"], {}, C18.hx(text))
                fs["k2.jwk"] = C18.hx(C18.js(pool[k2]))
                x = {"argv": ["jws", "sig"] + ia + (["-s", C18.js(tmpl)] if tmpl else []) + ["-k", "k2.jwk"], "files": fs}
                if sin is not None:
                    x["stdin"] = sin
                rr = ctx.real([("cli.run", x)])[0]
                ctx.evaluations += 1
                ncli += 1
                out = C18.tok_of_text(C18.parse_out(rr, None) or "") if rr.get("status") == 0 else None
                if not isinstance(out, dict):
                    ctx.pfails.append(("real:cli-refused", "jose jws sig refused to add a signature to a token given as %s: status %s" % (flabel, rr.get("status")), "cli.run", x, rr))
                    break
                pf = check_step("jws", cur, out, tmpl, None)
                if pf:
                    ctx.pfails.append((pf[0], pf[1] + " (jose jws sig, token given as %s)" % flabel, "cli.run", x, rr))
                    break
                keys.append(k2)
                ents = jws_entries(out)
                vs = ctx.real([("jws.ver", {"jws": out, "sig": ents[j], "jwk": pool[kn], "all": False}) for j, kn in enumerate(keys)])
                if not all(v.get("r") for v in vs):
                    ctx.pfails.append(("real:entry-unusable", "after jose jws sig on a token given as %s the entries verify as %s under their keys: %s" % (
                        flabel, [bool(v.get("r")) for v in vs], json.dumps(out)[:300]), "cli.run", x, rr))
                    break
                cur = out
    ctx.count("real:cli-sig-steps", ncli)


def run(ctx):
    ops = []
    maxlen = 4 if ctx.tier == "quick" else 5
    for kind in ("jws", "jwe"):
        pl, keys = SETS[kind]
        es = entries(kind) + [5, None, "str", []]
        for st in starts(kind):
            for n in range(1, maxlen + 1):
                pool = es if n <= 3 else es[:5]
                for hist in itertools.product(pool, repeat=n):
                    ops.append(("misc.entity_hist", {"kind": kind, "start": st, "objs": list(hist), "plural": pl, "keys": keys}))
    rng = ctx.rng
    for _ in range(300 if ctx.tier == "quick" else 5000):
        kind = rng.choice(["jws", "jwe"])
        pl, keys = SETS[kind]
        n = rng.randrange(5, 13)
        ops.append(("misc.entity_hist", {"kind": kind, "start": rng.choice(starts(kind)[:8]),
                                         "objs": [rng.choice(entries(kind)) for _ in range(n)], "plural": pl, "keys": keys}))
    for i in range(0, len(ops), 100000):
        ctx.compare(ops[i:i + 100000], p_check, nontrivial)
    ctx.exhaustive = True
    extra = globals().get("run_real")
    if extra:
        extra(ctx)


def replay(ctx, rp):
    ops = [(o, a) for o, a in rp.get("ops", [])] + [(d["op"], d["args"]) for d in rp.get("correspondence_disagreements", [])]
    ctx.compare(ops, p_check, nontrivial)
