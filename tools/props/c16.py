"""C16 — serialization shape stays well-formed across any history of additions."""
import itertools, json

ID = "C16"
RULE = ("misc.entity_hist: all histories of length <=4 (quick) / <=5 (thorough) over a set of entry objects (with "
        "and without each listed member, encoded/object protected, header) from empty, flattened, general(1..3) and "
        "empty-list start objects, for the JWS member set and the JWE member set, plus malformed lists; real "
        "sign/wrap histories with verification of every earlier entry after every step (run_real); distinct = "
        "distinct histories; non-trivial = at least two successful additions")
EXPLANATION = ("layout invariant proved on the model of add_entity for unbounded histories; exhaustive short "
               "histories tie the model to lib/openssl/misc.c; a direct layout oracle is evaluated on the real objects")
ASSUMPTIONS = []
BUDGET = {"quick": 300, "thorough": 1800}

SETS = {"jws": ("signatures", ["signature", "protected", "header"]),
        "jwe": ("recipients", ["header", "encrypted_key"])}


def entries(kind):
    if kind == "jws":
        return [{"signature": "s1"}, {"signature": "s2", "protected": "cDI"}, {"signature": "s3", "header": {"kid": 3}},
                {"signature": "s4", "protected": "cDQ", "header": {"a": [1]}}, {"protected": "only"}, {}, {"x": 1}]
    return [{"encrypted_key": "k1"}, {"encrypted_key": "k2", "header": {"alg": "A"}}, {"header": {"alg": "dir"}}, {},
            {"encrypted_key": "k4", "header": {"epk": {"kty": "EC"}}, "extra": 1}]


def starts(kind):
    pl, keys = SETS[kind]
    e = entries(kind)
    base = {"payload": "cGF5"} if kind == "jws" else {"ciphertext": "Y3Q", "iv": "aXY", "tag": "dGFn", "protected": "cA"}
    if kind == "jwe":
        # for JWE "protected" is not a listed member
        pass
    out = [dict(base), dict(base, **e[0]), dict(base, **e[1]), dict(base, **{pl: []}),
           dict(base, **{pl: [e[0]]}), dict(base, **{pl: [e[0], e[1]]}), dict(base, **{pl: [e[0], e[1], e[2]]}),
           dict(base, **{pl: []}, **e[0]),
           # malformed / hostile
           dict(base, **{pl: 5}), dict(base, **{pl: {}}), dict(base, **{pl: None}), dict(base, **{pl: [e[0]]}, **e[1]), 5, [], None]
    return out


def members(kind, o):
    return {k: o[k] for k in SETS[kind][1] if isinstance(o, dict) and k in o}


def layout(kind, root):
    """-> ('flat', [entry]) | ('general', entries) | ('empty', []) | ('bad', why)"""
    pl, keys = SETS[kind]
    if not isinstance(root, dict):
        return ("bad", "not an object")
    top = members(kind, root)
    if pl in root:
        if not isinstance(root[pl], list):
            return ("bad", "list is not an array")
        if top:
            return ("bad", "listed members at top level together with the list")
        if len(root[pl]) == 0:
            return ("bad", "empty list left behind")
        return ("general", root[pl])
    if top:
        return ("flat", [top])
    return ("empty", [])


def p_check(op, args, real):
    if op != "misc.entity_hist" or "crash" in real:
        return None
    kind = args["kind"]
    start = args["start"]
    st = layout(kind, start) if not (isinstance(start, dict) and start.get(SETS[kind][0]) == []) else \
        layout(kind, {k: v for k, v in start.items() if k != SETS[kind][0]})
    if st[0] == "bad":
        return None          # hostile start objects: only memory-safety matters (C09)
    cur = list(st[1])
    for obj, after in zip(args["objs"], real["steps"]):
        if after is None:
            if isinstance(obj, dict):
                return ("entity:refused", "a well-formed addition was refused: " + json.dumps(args)[:300])
            continue
        lay = layout(kind, after)
        if lay[0] == "bad":
            return ("entity:layout", lay[1] + " after adding %s :: %s" % (json.dumps(obj), json.dumps(args)[:300]))
        m = members(kind, obj)
        if cur or m:
            # the new entry: the whole object in general form, its listed members in flattened form
            exp_n = len(cur) + 1
            if lay[0] == "general":
                got = lay[1]
                if len(got) != exp_n:
                    return ("entity:count", "expected %d entries, found %d :: %s" % (exp_n, len(got), json.dumps(args)[:300]))
                for i, (a, b) in enumerate(zip(cur, got[:-1])):
                    if members(kind, b) != members(kind, a) or (isinstance(a, dict) and set(b) - set(a) - set(SETS[kind][1])):
                        return ("entity:moved", "entry %d changed: %s -> %s" % (i, json.dumps(a), json.dumps(b)))
                if got[-1] != obj:
                    return ("entity:order", "last entry is not the one just added")
                cur = list(got)
            elif lay[0] == "flat":
                if cur:
                    return ("entity:layout", "flattened form although %d entries were there: %s" % (len(cur), json.dumps(args)[:300]))
                if lay[1][0] != m:
                    return ("entity:flat", "flattened entry %s != added %s" % (json.dumps(lay[1][0]), json.dumps(m)))
                cur = [m]
            else:
                return ("entity:lost", "entry lost: %s" % json.dumps(args)[:300])
        # non-listed members of the root never change, apart from what a flattened addition merges in
        if isinstance(start, dict):
            for k, v in start.items():
                if k not in SETS[kind][1] and k != SETS[kind][0] and after.get(k) != v and not (isinstance(obj, dict) and k in obj):
                    return ("entity:frame", "top-level member %r changed" % k)
    return None


def nontrivial(op, args, real):
    return json.dumps(args, sort_keys=True) if sum(1 for s in real.get("steps", []) if s is not None) >= 2 else None


def run(ctx):
    ops = []
    maxlen = 4 if ctx.tier == "quick" else 5
    for kind in ("jws", "jwe"):
        pl, keys = SETS[kind]
        es = entries(kind) + [5, None, "str", []]
        for st in starts(kind):
            for n in range(1, maxlen + 1):
                pool = es if n <= 3 else es[:5]
                for hist in itertools.product(pool, repeat=n):
                    ops.append(("misc.entity_hist", {"kind": kind, "start": st, "objs": list(hist), "plural": pl, "keys": keys}))
    rng = ctx.rng
    for _ in range(300 if ctx.tier == "quick" else 5000):
        kind = rng.choice(["jws", "jwe"])
        pl, keys = SETS[kind]
        n = rng.randrange(5, 13)
        ops.append(("misc.entity_hist", {"kind": kind, "start": rng.choice(starts(kind)[:8]),
                                         "objs": [rng.choice(entries(kind)) for _ in range(n)], "plural": pl, "keys": keys}))
    for i in range(0, len(ops), 100000):
        ctx.compare(ops[i:i + 100000], p_check, nontrivial)
    ctx.exhaustive = True
    extra = globals().get("run_real")
    if extra:
        extra(ctx)


def replay(ctx, rp):
    ops = [(o, a) for o, a in rp.get("ops", [])] + [(d["op"], d["args"]) for d in rp.get("correspondence_disagreements", [])]
    ctx.compare(ops, p_check, nontrivial)
