"""C02 — JWE decryption is authenticated over protected, aad, iv, ciphertext, tag."""
import copy, json
import keys as K
import jwegen as E
from jwsgen import b64u, b64d, enc as encj
from props.c04 import cmp, strip, templates
from props.c01 import flip_char, flip_bit_b64, positions

ID = "C02"
CORPUS_FIRST = True
RULE = ("valid JWEs for key-management x content-encryption combinations (jose-made and Lean-made), aad absent / shorter "
        "/ equal / longer than the protected header / empty, zip on/off; then the mutation stream: every character of "
        "iv and tag, position classes (incl. the tail) of protected, aad, ciphertext, encrypted_key, epk.x/y/crv, apu, "
        "apv, p2s, p2c, wrapped-key iv/tag, member deletion and type substitution, wrong keys (other key of the type, "
        "public half, key of another type); streaming decryption with the last ciphertext byte changed; every mutation "
        "that must be refused is checked on the implementation directly, the rest against the independent "
        "implementation; distinct = distinct (op,args); non-trivial = token carries ciphertext")
EXPLANATION = ("authentication theorems proved on the model for every Prims; differential + direct oracle on mutations.")
ASSUMPTIONS = ["Jose/Crypto as independent implementation of the AEAD / key-management primitives"]
BUDGET = {"quick": 900, "thorough": 3600}
TRUSTED = ["Jose/Crypto/*.lean as independent implementation"]


def set_hdr(tok, name, value, delete=False):
    """change a header parameter wherever it lives (per-recipient header of a flattened token)"""
    t = copy.deepcopy(tok)
    h = t.setdefault("header", {})
    if delete:
        h.pop(name, None)
    else:
        h[name] = value
    return t


def mutations(rng, tok, key, wrap, enc, pool, pt):
    yield ("unmutated", tok, key, True)
    # members authenticated by the content encryption
    for m in ("iv", "tag"):
        s = tok[m]
        for i in range(len(s)):
            yield ("%s char %d" % (m, i), dict(tok, **{m: flip_char(s, i)}), key, False)
        yield (m + " truncated", dict(tok, **{m: s[:-2]}), key, False)
        yield (m + " extended", dict(tok, **{m: s + "AAAA"}), key, False)
        yield (m + " absent", {k: v for k, v in tok.items() if k != m}, key, False)
        yield (m + " empty", dict(tok, **{m: ""}), key, False)
        for v in (5, None, [], {}):
            yield ("%s type %r" % (m, v), dict(tok, **{m: v}), key, False)
    for m in ("protected", "ciphertext", "aad"):
        s = tok.get(m)
        if not isinstance(s, str):
            continue
        n = len(s)
        for i in sorted({0, 1, 2, 3, n // 2, n - 4, n - 3, n - 2, n - 1} & set(range(n))):
            yield ("%s char %d/%d" % (m, i, n), dict(tok, **{m: flip_char(s, i)}), key, False)
        if n:
            yield (m + " truncated by one", dict(tok, **{m: s[:-1]}), key, False)
        yield (m + " extended", dict(tok, **{m: s + "AA"}), key, False if m != "ciphertext" or True else None)
    if "aad" in tok:
        # text with an embedded NUL: the whole text is the associated data, not its C-string prefix
        a0 = tok["aad"]
        yield ("aad extended behind a NUL", dict(tok, aad=a0 + "\u0000ZZZZ"), key, False)
        yield ("aad cut by a NUL", dict(tok, aad=a0[:len(a0) // 2] + "\u0000" + a0[len(a0) // 2:]), key, False)
        yield ("aad removed", {k: v for k, v in tok.items() if k != "aad"}, key, False)
        yield ("aad type", dict(tok, aad=5), key, False)
    else:
        yield ("aad added", dict(tok, aad="QQ"), key, False)
        yield ("aad added empty", dict(tok, aad=""), key, False)
    yield ("ciphertext absent", {k: v for k, v in tok.items() if k != "ciphertext"}, key, False)
    yield ("ciphertext type", dict(tok, ciphertext=[]), key, False)
    yield ("protected absent", {k: v for k, v in tok.items() if k != "protected"}, key, False)
    yield ("protected as object", dict(tok, protected=json.loads(b64d(tok["protected"]))), key, False)
    # key-management members
    ek = tok.get("encrypted_key")
    if isinstance(ek, str) and ek:
        n = len(ek)
        for i in sorted({0, 1, n // 2, n - 2, n - 1} & set(range(n))):
            yield ("encrypted_key char %d" % i, dict(tok, encrypted_key=flip_char(ek, i)), key, False)
        yield ("encrypted_key truncated", dict(tok, encrypted_key=ek[:-4]), key, False)
        yield ("encrypted_key absent", {k: v for k, v in tok.items() if k != "encrypted_key"}, key, False)
    if isinstance(ek, str) and ek:
        for v in ("", 5, [], None):
            yield ("encrypted_key replaced by %r" % (v,), dict(tok, encrypted_key=v), key, False)
    else:
        # direct encryption / direct key agreement: the encrypted key is the empty octet sequence (RFC 7516 5.2 step 10);
        # "any change to the recipient's encrypted key" is a change to that
        for v in ("AAAA", "QQ", b64u(bytes(16))):
            yield ("encrypted_key of a direct recipient set to %r" % v, dict(tok, encrypted_key=v), key, False)
    hdr = tok.get("header") or {}
    prot = json.loads(b64d(tok["protected"]))
    if isinstance(hdr.get("epk"), dict):
        epk = hdr["epk"]
        for m in ("x", "y"):
            for bit in (0, 9, 100):
                yield ("epk.%s bit %d" % (m, bit), set_hdr(tok, "epk", dict(epk, **{m: flip_bit_b64(epk[m], bit)})), key, False)
        yield ("epk.crv other", set_hdr(tok, "epk", dict(epk, crv="P-384" if epk.get("crv") != "P-384" else "P-256")), key, False)
        yield ("epk absent", set_hdr(tok, "epk", None, delete=True), key, False)
        yield ("epk of another key", set_hdr(tok, "epk", K.public(pool["EC-P256-c"] if epk.get("crv") == "P-256" else pool["EC-P384-b"] if epk.get("crv") == "P-384" else pool["EC-P521-b"])), key, False)
        for m in ("apu", "apv"):
            if isinstance(hdr.get(m), str):
                # party information the token was made with: every character of it is bound through the key derivation
                v = hdr[m]
                yield (m + " absent", set_hdr(tok, m, None, delete=True), key, False)
                yield (m + " empty", set_hdr(tok, m, ""), key, False)
                yield (m + " char 0", set_hdr(tok, m, flip_char(v, 0)), key, False)
                yield (m + " last char", set_hdr(tok, m, flip_char(v, len(v) - 1)), key, False)
                yield (m + " extended by one byte", set_hdr(tok, m, b64u(b64d(v) + b"\x00")), key, False)
                yield (m + " truncated by one byte", set_hdr(tok, m, b64u(b64d(v)[:-1])), key, False)
                o = "apv" if m == "apu" else "apu"
                if isinstance(hdr.get(o), str) and hdr[o] != v:
                    t2 = set_hdr(set_hdr(tok, m, hdr[o]), o, v)
                    yield ("apu and apv swapped", t2, key, False)
            elif m not in prot:
                yield (m + " added", set_hdr(tok, m, "QQ"), key, False)
    for m in ("p2s", "iv", "tag"):
        if isinstance(hdr.get(m), str):
            # longer than what the library itself generates: every byte of the value is bound, not a prefix
            yield ("header %s extended" % m, set_hdr(tok, m, hdr[m] + "QUJDREVG"), key, False)
            yield ("header %s extended by one byte" % m, set_hdr(tok, m, b64u(b64d(hdr[m]) + b"\x00")), key, False)
            for i in sorted({0, len(hdr[m]) - 1}):
                yield ("header %s char %d" % (m, i), set_hdr(tok, m, flip_char(hdr[m], i)), key, False)
            yield ("header %s absent" % m, set_hdr(tok, m, None, delete=True), key, False)
    if "p2c" in hdr:
        for v in (hdr["p2c"] + 1, hdr["p2c"] - 1, 1000, 1, 0, -1, 32769, 2 ** 31, 2 ** 32 + hdr["p2c"], "32768", None):
            if v == hdr["p2c"]:
                continue
            yield ("p2c %r" % (v,), set_hdr(tok, "p2c", v), key, False)
    # algorithm games in the unprotected headers cannot override the protected ones
    yield ("unprotected alg/enc override attempt", dict(tok, unprotected={"alg": "dir", "enc": "A128GCM", "zip": "DEF"}), key,
           True if ("alg" in prot and "enc" in prot) else None)
    # wrong keys
    others = {"oct": [pool["oct-16"], pool["oct-24"], pool["oct-32"], pool["oct-48"], pool["oct-64"]],
              "EC": [pool["EC-P256-b"], pool["EC-P384-b"], pool["EC-P521-b"]], "RSA": [pool["RSA-2048-b"], pool["RSA-3072"]]}
    if isinstance(key, dict):
        for o in others[key["kty"]]:
            if o.get("k", 1) != key.get("k", 2) and o.get("n", 1) != key.get("n", 2) and o.get("x", 1) != key.get("x", 2):
                yield ("other %s key" % key["kty"], tok, dict(o, **({"alg": key["alg"]} if "alg" in key else {})), False)
        for t, l in others.items():
            if t != key["kty"]:
                yield ("key of type " + t, tok, l[0], False)
        if key["kty"] != "oct":
            yield ("public half", tok, K.public(key), False)
        for m in ("k", "d"):
            if m in key:
                # an RSA key still carries intact CRT parameters, which OpenSSL prefers over d
                yield ("key %s bit flipped" % m, tok, dict(key, **{m: flip_bit_b64(key[m], 3)}), False if key["kty"] != "RSA" else None)
        if key["kty"] == "RSA":
            bad = dict(key, d=flip_bit_b64(key["d"], 3), dp=flip_bit_b64(key["dp"], 3))
            yield ("RSA key d and dp bit flipped", tok, bad, False)
            yield ("RSA key without CRT, d flipped", tok, {k: v for k, v in dict(key, d=flip_bit_b64(key["d"], 3)).items() if k not in ("p", "q", "dp", "dq", "qi")}, False)
            yield ("RSA key without CRT", tok, {k: v for k, v in key.items() if k not in ("p", "q", "dp", "dq", "qi")}, True)
        yield ("key use sig", tok, dict(key, use="sig"), False)
        yield ("key alg other", tok, dict(key, alg="A128KW" if wrap != "A128KW" else "A256KW"), False)
    else:
        yield ("other password", tok, key + "x", False)
        yield ("password as key object", tok, {"kty": "oct", "k": b64u(key.encode())}, True)
    for j in (5, None, [], {}, "nope" if isinstance(key, dict) else 7):
        yield ("junk key %r" % (j,), tok, j, False)
    yield ("empty key list", tok, [], False)
    # (a key list stops at the first key that yields *a* content key; "dir" always yields one)
    yield ("key list with the key", tok, [pool["oct-128"], key], True if wrap != "dir" else None)


def run(ctx):
    rng = ctx.rng
    pool = K.pool(ctx.jose)
    quick = ctx.tier == "quick"
    combos = []
    for wrap in E.WRAPS:
        encs = E.ENCS if not quick else [rng.choice(E.ENCS[:3]), rng.choice(E.ENCS[3:])]
        for enc in encs:
            for zip_, aad in ((False, None), (False, "YQ"), (True, "QUFE" * 30), (False, "QUFE" * 9), (False, "")):
                if quick and rng.random() < 0.55 and (zip_ or aad in ("", "YQ")):
                    continue
                combos.append((wrap, enc, zip_, aad))
    ops = []
    for wrap, enc, zip_, aad in combos:
        key = E.key_for(pool, wrap, enc, rng)
        jwe, rcp = templates(wrap, enc, zip_, aad, "protected" if wrap not in E.ECDH + E.PBES2 or rng.random() < 0.5 else "recipient")
        if wrap in E.PBES2 and rng.random() < 0.8:
            # keep the iteration count low for most PBES2 tokens (speed); the default is exercised too
            (jwe.setdefault("protected", {}) if rcp is None else rcp["header"])["p2c"] = 1000
        if wrap in E.ECDH and rcp is not None and rng.random() < 0.6:
            # party information carried by the token (changed / removed / swapped by the mutations)
            rcp["header"]["apu"] = b64u(rng.choice([b"Alice", rng.randbytes(rng.choice([1, 7, 32]))]))
            rcp["header"]["apv"] = b64u(rng.choice([b"Bob", rng.randbytes(rng.choice([1, 9, 33]))]))
        pt = rng.choice([b"", b"s", rng.randbytes(33), b"abc" * 100])
        a = {"jwe": jwe, "jwk": key, "pt": pt.hex(), "rand": rng.randbytes(200).hex(), "_wrap": wrap, "_enc": enc, "_zip": zip_}
        if rcp is not None:
            a["rcp"] = rcp
        ops.append(("jwe.enc", a))
    real, model = cmp(ctx, ops, lambda *a: None)
    base = []
    for (op, a), r, m in zip(ops, real, model):
        if r.get("ok"):
            base.append((r["jwe"], a, "jose"))
        if m.get("ok") and (not quick or a["_wrap"] in ("ECDH-ES", "RSA-OAEP", "A128KW")):
            base.append((m["jwe"], a, "lean"))
    ctx.count("base-tokens", len(base))
    dops = []
    for tok, a, side in base:
        for why, jwe, jwk, expect in mutations(rng, tok, a["jwk"], a["_wrap"], a["_enc"], pool, a["pt"]):
            d = {"jwe": jwe, "jwk": jwk, "rand": rng.randbytes(600).hex(), "_why": "%s %s/%s: %s" % (side, a["_wrap"], a["_enc"], why)}
            if jwk is None:
                del d["jwk"]
            if expect is True:
                d["_pt"] = a["pt"]
            elif expect is False:
                d["_expect_fail"] = True
            dops.append(("jwe.dec", d))
    # the combined streaming entry point on mutated tokens: tag / iv / aad / protected changed, ciphertext truncated
    for tok, a, side in [b for b in base if b[2] == "jose"][:: (5 if quick else 1)]:
        ctb = b64d(tok["ciphertext"])
        det = {k: v for k, v in tok.items() if k != "ciphertext"}
        feeds = [ctb[:len(ctb) // 2].hex(), ctb[len(ctb) // 2:].hex()]
        muts = [("unmutated", det, feeds, True), ("tag char 0", dict(det, tag=flip_char(det["tag"], 0)), feeds, False), ("iv char 0", dict(det, iv=flip_char(det["iv"], 0)), feeds, False),
                ("protected char 3", dict(det, protected=flip_char(det["protected"], 3)), feeds, False)]
        if ctb:
            muts.append(("ciphertext short by one byte", det, [ctb[:-1].hex()], False))
        if "aad" in det:
            muts.append(("aad removed", {k: v for k, v in det.items() if k != "aad"}, feeds, False))
        else:
            muts.append(("aad added", dict(det, aad="QQ"), feeds, False))
        for why, t2, fd, ok in muts:
            d = {"jwe": t2, "jwk": a["jwk"], "feeds": fd, "rand": rng.randbytes(600).hex(), "_why": "%s %s/%s streamed (dec_io): %s" % (side, a["_wrap"], a["_enc"], why)}
            if ok:
                d["_pt"] = a["pt"]
            elif a["_wrap"] != "RSA1_5" or "tag" in why or "iv" in why or "aad" in why or "short" in why:
                d["_expect_fail"] = True
            dops.append(("jwe.dec_io", d))
    # a named recipient binds the decryption to *that* recipient object, for single keys and for key sets alike:
    # two-recipient objects, recipient i named together with the other recipient's key / a key set / a tampered copy
    fresh = lambda n: {"kty": "oct", "k": b64u(rng.randbytes(n))}
    two = []
    for w, n in (("A128KW", 16), ("A256KW", 32), ("A192GCMKW", 24)):
        k0, k1 = fresh(n), fresh(n)
        two.append(("jwe.enc", {"jwe": {"protected": {"enc": "A128GCM"}, "unprotected": {"alg": w}}, "rcp": {}, "jwk": [k0, k1], "pt": b"named recipient".hex(),
                                "rand": rng.randbytes(400).hex(), "_k": (k0, k1)}))
    for (o, a), r in zip(two, ctx.real([(o, strip(a)) for o, a in two])):
        if not (r.get("ok") and isinstance(r["jwe"].get("recipients"), list) and len(r["jwe"]["recipients"]) == 2):
            ctx.pfails.append(("dec:setup", "two-recipient encryption refused", o, strip(a), r))
            continue
        tok = r["jwe"]
        k0, k1 = a["_k"]
        r0, r1 = tok["recipients"]
        bad0 = dict(r0, encrypted_key=flip_char(r0["encrypted_key"], 3))
        for shape, wrapk in (("single key", lambda k: k), ("key array", lambda k: [k]), ("key set", lambda k: {"keys": [k]}), ("set with a foreign key first", lambda k: {"keys": [fresh(16), k]})):
            for why, rcp, key, ok in (("own recipient, own key", r0, k0, True), ("own recipient, own key", r1, k1, True),
                                      ("recipient 0 named, key of recipient 1", r0, k1, False), ("recipient 1 named, key of recipient 0", r1, k0, False),
                                      ("tampered copy of recipient 0 named, its key", bad0, k0, False)):
                d = {"jwe": tok, "rcp": rcp, "jwk": wrapk(key), "rand": rng.randbytes(600).hex(), "_why": "%s, %s" % (why, shape)}
                if ok:
                    d["_pt"] = a["pt"]
                else:
                    d["_expect_fail"] = True
                dops.append(("jwe.dec", d))
                dops.append(("jwe.dec_jwk", dict(d)))
                # and through the combined streaming entry point (ciphertext bytes fed, verdict at `done`)
                ctb = b64d(tok["ciphertext"])
                dops.append(("jwe.dec_io", dict(d, jwe={k: v for k, v in tok.items() if k != "ciphertext"}, feeds=[ctb[:3].hex(), ctb[3:].hex()])))
        # the same object handed over WITHOUT naming a recipient: the library walks the list itself; a tampered entry of
        # the key's own recipient fails, a tampered entry of the OTHER recipient does not disturb this key
        bad1 = dict(r1, encrypted_key=flip_char(r1["encrypted_key"], 3))
        for why, rcps, key, ok in (("general form, recipient 1 tampered, key 1", [r0, bad1], k1, False), ("general form, recipient 0 tampered, key 1", [bad0, r1], k1, True),
                                   ("general form, recipient 0 tampered, key 0", [bad0, r1], k0, False), ("general form, recipient 1 tampered, key 0", [r0, bad1], k0, True),
                                   ("general form, recipients swapped, key 0", [r1, r0], k0, True), ("general form, only the other recipient left, key 0", [r1], k0, False),
                                   ("general form, tag changed, key 1", None, k1, False)):
            t2 = dict(tok, recipients=rcps) if rcps is not None else dict(tok, tag=flip_char(tok["tag"], 0))
            d = {"jwe": t2, "jwk": key, "rand": rng.randbytes(600).hex(), "_why": why}
            if ok:
                d["_pt"] = a["pt"]
            else:
                d["_expect_fail"] = True
            dops.append(("jwe.dec", d))
    # tokens that have NO protected header (names in the shared unprotected header), with and without aad: the AAD is
    # "" resp. "." || aad - every change to aad, and a protected header appearing from nowhere, must fail
    for w, kn, enc in (("A128KW", "oct-16", "A128CBC-HS256"), ("A256GCMKW", "oct-32", "A256GCM"), ("dir", None, "A128GCM"), ("ECDH-ES", "EC-P256", "A192CBC-HS384")):
        key = pool[kn] if kn else dict(fresh(E.CEKLEN[enc]), alg=enc)
        for aad in (None, "YWFk", ""):
            jwe = {"unprotected": {"alg": w, "enc": enc}}
            if aad is not None:
                jwe["aad"] = aad
            r = ctx.real([("jwe.enc", {"jwe": jwe, "jwk": key, "pt": b"no protected header".hex(), "rand": rng.randbytes(300).hex()})])[0]
            if not r.get("ok") or "protected" in r["jwe"]:
                ctx.pfails.append(("dec:setup", "encryption without protected header refused or gained one: %s" % json.dumps(r)[:200], "jwe.enc", {}, r))
                continue
            tok = r["jwe"]
            muts = [("unmutated", tok, True), ("protected e30 added", dict(tok, protected="e30"), False), ("protected empty text added", dict(tok, protected=""), False),
                    ("tag char 0", dict(tok, tag=flip_char(tok["tag"], 0)), False), ("iv char 0", dict(tok, iv=flip_char(tok["iv"], 0)), False)]
            if aad is None:
                muts += [("aad added", dict(tok, aad="QQ"), False), ("aad added empty", dict(tok, aad=""), False)]
            else:
                muts += [("aad removed", {k: v for k, v in tok.items() if k != "aad"}, False), ("aad extended", dict(tok, aad=aad + "QQ"), False)]
                if aad:
                    muts += [("aad char 0", dict(tok, aad=flip_char(aad, 0)), False), ("aad emptied", dict(tok, aad=""), False)]
                else:
                    muts += [("aad set", dict(tok, aad="YQ"), False)]
            for why, t2, ok in muts:
                d = {"jwe": t2, "jwk": key, "rand": rng.randbytes(600).hex(), "_why": "no protected header, %s/%s aad=%r: %s" % (w, enc, aad, why)}
                d["_pt" if ok else "_expect_fail"] = b"no protected header".hex() if ok else True
                dops.append(("jwe.dec", d))
    # the protected header re-spelled: same JSON value, different text - the tag covers the text
    for tok, a, side in [b for b in base if b[2] == "jose"][:: (6 if quick else 1)]:
        try:
            pobj = json.loads(b64d(tok["protected"]))
        except Exception:
            continue
        for why, txt in (("space inserted", json.dumps(pobj, separators=(",", ": "))), ("members reversed", json.dumps(dict(reversed(list(pobj.items()))), separators=(",", ":"))),
                         ("a member duplicated", "{" + json.dumps(pobj, separators=(",", ":"))[1:-1] + "," + json.dumps(pobj, separators=(",", ":"))[1:]),
                         ("escaped", json.dumps(pobj, separators=(",", ":")).replace("A", "\\u0041", 1))):
            if b64u(txt.encode()) == tok["protected"]:
                continue
            dops.append(("jwe.dec", {"jwe": dict(tok, protected=b64u(txt.encode())), "jwk": a["jwk"], "rand": rng.randbytes(600).hex(), "_expect_fail": True,
                                     "_why": "%s %s/%s: protected header re-spelled (%s)" % (side, a["_wrap"], a["_enc"], why)}))
    # passwords that differ only behind a NUL / are a prefix
    rp = ctx.real([("jwe.enc", {"jwe": {"protected": {"alg": "PBES2-HS256+A128KW", "enc": "A128GCM", "p2c": 1000}}, "jwk": "pass\u0000word", "pt": "6869", "rand": rng.randbytes(300).hex()})])[0]
    if rp.get("ok"):
        for pw, ok in (("pass\u0000word", True), ("pass", False), ("pass\u0000", False), ("pass\u0000other", False)):
            # (a password extended by NUL bytes is the same HMAC key - HMAC pads short keys with zeros - so PBKDF2 gives
            #  the same result for it by construction: not generated as a "wrong key")
            d = {"jwe": rp["jwe"], "jwk": pw, "rand": "00" * 600, "_why": "password %r against a token made with 'pass\\0word'" % pw}
            d["_pt" if ok else "_expect_fail"] = "6869" if ok else True
            dops.append(("jwe.dec", d))
    # streaming decryption: last byte of the ciphertext changed => done must report failure
    for tok, a, side in base[:: (4 if quick else 1)]:
        cekop = ("jwe.dec_jwk", {"jwe": tok, "jwk": a["jwk"], "rand": "00" * 600})
        dops.append(cekop)

    def p(op, args, real):
        if "crash" in real:
            return None
        if op == "jwe.dec_jwk" and args.get("_expect_fail") and "v" in real:
            return ("dec:unauthenticated", "a content key is handed out after: %s :: %s" % (args["_why"], json.dumps(strip(args))[:400]))
        if op not in ("jwe.dec", "jwe.dec_io"):
            return None
        if "_pt" in args and not (real.get("ok") and real.get("pt") == args["_pt"]):
            return ("dec:rejects-valid", "valid token refused or wrong plaintext (%s): %s" % (args["_why"], json.dumps(strip(args))[:300]))
        if args.get("_expect_fail") and real.get("ok"):
            return ("dec:unauthenticated", "decryption reports success after: %s :: %s" % (args["_why"], json.dumps(strip(args))[:400]))
        return None

    real, model = [], []
    for i in range(0, len(dops), 50000):
        r, m = cmp(ctx, dops[i:i + 50000], p)
        real += r
        model += m
    # streaming with recovered CEKs
    sops = []
    for (op, a), r in zip(dops, real):
        if op == "jwe.dec_jwk" and "v" in r:
            tok = a["jwe"]
            ct = b64d(tok["ciphertext"])
            det = {k: v for k, v in tok.items() if k != "ciphertext"}
            good = [ct[:len(ct) // 2].hex(), ct[len(ct) // 2:].hex()]
            sops.append(("jwe.dec_cek_io", {"jwe": det, "cek": r["v"], "feeds": good, "_ok": True}))
            if ct:
                bad = bytearray(ct)
                bad[-1] ^= 1
                sops.append(("jwe.dec_cek_io", {"jwe": det, "cek": r["v"], "feeds": [bytes(bad[:1]).hex(), bytes(bad[1:]).hex()], "_ok": False}))
            sops.append(("jwe.dec_cek_io", {"jwe": det, "cek": r["v"], "feeds": good + ["00"], "_ok": False}))

    def ps(op, args, real):
        if "crash" in real:
            return None
        if args["_ok"] != bool(real.get("ok")):
            return ("dec_io:" + ("rejects-valid" if args["_ok"] else "unauthenticated"), "streamed decryption: expected ok=%s: %s" % (args["_ok"], json.dumps(strip(args))[:300]))
        return None
    cmp(ctx, sops, ps)


def replay(ctx, rp):
    ops = [(o, a) for o, a in rp.get("ops", [])] + [(d["op"], d["args"]) for d in rp.get("correspondence_disagreements", [])]
    cmp(ctx, ops, lambda *a: None)
