"""C04 — JWE encrypt/decrypt round trip, interoperability, re-wrap."""
import copy, glob, json, os
import keys as K
import jwegen as E
from jwsgen import b64u, b64d, enc as encj
import jwsgen as G
from props.c03 import compare, strip

ID = "C04"
RULE = ("jwe.enc on the implementation and on the independent Lean implementation (same RAND_bytes tape) for every "
        "key-management algorithm (21) x content encryption (6) x {zip, no zip} x {no aad, aad shorter/equal/longer "
        "than the protected header} x plaintext lengths 0,1,15,16,17,4096 (65537 thorough) x header placement "
        "(protected / unprotected / per-recipient); bit-for-bit comparison wherever the tape determines the output; "
        "every token decrypted by both sides with the recipient key and refused with a foreign key; multi-recipient "
        "histories and re-wrap; streamed encryption/decryption under random chunkings; RFC 7520 section 5 vectors; "
        "distinct = distinct (op,args); non-trivial = a token is produced or decrypted")
EXPLANATION = ("round-trip theorems are proved on the model for every Prims satisfying the stated laws; this run executes "
               "both implementations on the same inputs and cross-decrypts every token.")
ASSUMPTIONS = ["Jose/Crypto (AES, GCM, CBC, key wrap, RSAES, PBKDF2, ECDH, inflate) is the independent RFC 7518 implementation",
               "compressed tokens: the model emits stored deflate blocks, so ciphertext/tag are compared by cross-decryption"]
BUDGET = {"quick": 900, "thorough": 3600}
TRUSTED = ["Jose/Crypto/*.lean as independent implementation"]

_cur = {}


def canon(op, args, r):
    a = _cur.get(id(args), args)
    if isinstance(r, dict) and r.get("ok") and "jwe" in r:
        out = dict(r, jwe=E.mask(r["jwe"], a.get("_wrap"), a.get("_zip")))
        if "cek" in out and (a.get("_wrap") in ("ECDH-ES",)):
            out["cek"] = "<cek>"
        return out
    return r


def cmp(ctx, ops, p):
    sent = [(o, strip(a)) for o, a in ops]
    for s, (o, a) in zip(sent, ops):
        _cur[id(s[1])] = a
    def pc(op, args, real):
        return p(op, _cur.get(id(args), args), real)
    r = ctx.compare(sent, pc, lambda op, args, real: json.dumps(args, sort_keys=True)[:2000], canon=canon)
    _cur.clear()
    return r


def p_enc(op, args, real):
    if "crash" in real:
        return None
    if args.get("_expect_ok") and not real.get("ok"):
        return ("enc:refused", "encryption refused for a valid combination %s/%s: %s" % (args.get("_wrap"), args.get("_enc"),
                                                                                     json.dumps(strip(args))[:300]))
    return None


def dir_shadow(args):
    """known finding, same root cause: general form, rcp not named, a `dir` recipient precedes the key's own (dir's unwrap
    copies ANY key into the CEK, whatever its type: lib/openssl/dir.c alg_wrap_unw)"""
    jwe, jwk = args.get("jwe"), args.get("jwk")
    if "rcp" in args or not isinstance(jwe, dict) or not isinstance(jwe.get("recipients"), list):
        return False
    algs = [(r.get("header") or {}).get("alg") for r in jwe["recipients"] if isinstance(r, dict)]
    return "dir" in algs[:-1]


def rsa15_shadow(args):
    """known finding: general form, rcp not named, key is RSA, an RSA1_5 recipient precedes the key's own recipient"""
    jwe, jwk = args.get("jwe"), args.get("jwk")
    if "rcp" in args or not isinstance(jwe, dict) or not isinstance(jwe.get("recipients"), list):
        return False
    keys = jwk if isinstance(jwk, list) else [jwk]
    if not any(isinstance(k, dict) and k.get("kty") == "RSA" for k in keys):
        return False
    algs = [(r.get("header") or {}).get("alg") for r in jwe["recipients"] if isinstance(r, dict)]
    return "RSA1_5" in algs[:-1]


def p_dec(op, args, real):
    if "crash" in real:
        return None
    exp = args.get("_pt")
    if exp is not None:
        if not real.get("ok") and rsa15_shadow(args):
            return ("dec:rsa15-shadows-later-recipient", "an RSA1_5 recipient earlier in the list shadows this key's recipient: " + json.dumps(strip(args))[:200])
        if not real.get("ok") and dir_shadow(args):
            return ("dec:dir-shadows-later-recipient", "a dir recipient earlier in the list shadows this key's recipient: " + json.dumps(strip(args))[:200])
        if not real.get("ok"):
            return ("dec:rejects-valid", "decryption failed (%s): %s" % (args.get("_why"), json.dumps(strip(args))[:400]))
        if real.get("pt") != exp:
            return ("dec:plaintext", "wrong plaintext (%s)" % args.get("_why"))
    if args.get("_expect_fail") and real.get("ok"):
        return ("dec:accepts-foreign", "decrypted with a key of no recipient (%s): %s" % (args.get("_why"), json.dumps(strip(args))[:300]))
    return None


def templates(wrap, enc, zip_, aad, place):
    hdr = {"alg": wrap, "enc": enc}
    prot = {}
    jwe = {}
    rcp = None
    if place == "protected":
        prot.update(hdr)
    elif place == "unprotected":
        jwe["unprotected"] = dict(hdr)
    elif place == "recipient":
        prot["enc"] = enc
        rcp = {"header": {"alg": wrap}}
    elif place == "infer":
        pass
    if zip_:
        prot["zip"] = "DEF"
    if prot or place == "protected":
        jwe["protected"] = prot
    if aad is not None:
        jwe["aad"] = aad
    return jwe, rcp


def run(ctx):
    rng = ctx.rng
    pool = K.pool(ctx.jose)
    quick = ctx.tier == "quick"
    pts = [b"", b"x", rng.randbytes(15), rng.randbytes(16), rng.randbytes(17), b"compressible " * 300] + ([] if quick else [rng.randbytes(65537)])
    ops = []
    for wrap in E.WRAPS:
        for enc in E.ENCS:
            combos = [(False, None, "protected")]
            if not quick or rng.random() < 0.5:
                combos += [(True, None, "protected"), (False, "YWFk", "protected"), (True, "QUFE" * 30, "protected"),
                           (False, "", "protected"), (False, None, "unprotected"), (False, None, "recipient"),
                           (False, "", "unprotected")]
            if wrap in ("dir", "A128KW", "ECDH-ES", "RSA-OAEP", "A256GCMKW", "PBES2-HS256+A128KW") or not quick:
                # RFC 7520 5.12 shape: no protected header at all, with "aad": the AAD is "." || aad
                combos += [(False, "YWFk", "unprotected"), (False, "QUFE" * 30, "unprotected")]
            for zip_, aad, place in combos:
                key = E.key_for(pool, wrap, enc, rng)
                jwe, rcp = templates(wrap, enc, zip_, aad, place)
                for pt in (pts if (not quick and place == "protected") else [rng.choice(pts), pts[0]] if quick else pts[:3]):
                    a = {"jwe": jwe, "jwk": key, "pt": pt.hex(), "rand": rng.randbytes(200).hex(),
                         "_wrap": wrap, "_enc": enc, "_zip": zip_, "_expect_ok": True}
                    if rcp is not None:
                        a["rcp"] = rcp
                    ops.append(("jwe.enc", a))
    real, model = cmp(ctx, ops, p_enc)
    dec_ops = []
    for (op, a), r, m in zip(ops, real, model):
        for side, res in (("jose", r), ("lean", m)):
            if not res.get("ok"):
                continue
            tok = res["jwe"]
            why = "%s-made %s/%s zip=%s" % (side, a["_wrap"], a["_enc"], a["_zip"])
            dec_ops.append(("jwe.dec", {"jwe": tok, "jwk": a["jwk"], "rand": "00" * 600, "_pt": a["pt"], "_why": why}))
            foreign = pool["oct-128"] if not isinstance(a["jwk"], dict) or a["jwk"].get("kty") != "oct" else pool["EC-P256-b"]
            dec_ops.append(("jwe.dec", {"jwe": tok, "jwk": foreign, "rand": "00" * 600, "_expect_fail": True, "_why": why + " foreign key"}))
            # "and no other": a key of the SAME kind and size, so that only the cryptography (key-wrap integrity, the
            # content tag) can refuse it - a foreign key of another type or size fails long before
            k0 = a["jwk"]
            if isinstance(k0, str):
                twin = k0[:-1] + ("x" if k0[-1] != "x" else "y")
            elif k0.get("kty") == "oct":
                kb = bytearray(G.b64d(k0["k"]))
                kb[-1] ^= 1
                twin = dict(k0, k=G.b64u(bytes(kb)))
            elif k0.get("kty") == "EC":
                twin = next((pool[n_] for n_ in sorted(pool) if isinstance(pool[n_], dict) and pool[n_].get("crv") == k0["crv"] and pool[n_].get("x") != k0["x"]), None)
            else:
                twin = next((pool[n_] for n_ in ("RSA-2048-b", "RSA-2048") if pool[n_]["n"] != k0["n"]), None)
            if twin is not None and a["_wrap"] != "RSA1_5":
                dec_ops.append(("jwe.dec", {"jwe": tok, "jwk": twin, "rand": "00" * 600, "_expect_fail": True, "_why": why + " a key of the same kind and size"}))
    cmp(ctx, dec_ops, p_dec)
    ctx.count("tokens", len(dec_ops) // 2)
    # the combined streaming entry points (jose_jwe_enc_io / jose_jwe_dec_io): same object as the one-shot call for the
    # same tape, for every chunking of the plaintext; every chunking of the ciphertext bytes decrypts to the plaintext
    io_ops = []
    sel = [x for x in zip(ops, real) if x[1].get("ok")]
    for (op, a), r in sel[:: max(1, len(sel) // (40 if quick else 400))]:
        pt = bytes.fromhex(a["pt"])
        for feeds in ([pt.hex()], chunks(rng, pt), [""] + chunks(rng, pt) + [""]):
            b = {k: v for k, v in a.items() if k != "pt"}
            io_ops.append(("jwe.enc_io", dict(b, feeds=feeds, _oneshot=r, _expect_ok=True)))
        ct = G.b64d(r["jwe"]["ciphertext"])
        det = {k: v for k, v in r["jwe"].items() if k != "ciphertext"}
        for feeds in ([ct.hex()], chunks(rng, ct), [ct[:1].hex(), ct[1:].hex(), ""]):
            io_ops.append(("jwe.dec_io", {"jwe": det, "jwk": a["jwk"], "feeds": feeds, "rand": "00" * 600, "_pt": a["pt"], "_why": "dec_io of a %s/%s token" % (a["_wrap"], a["_enc"])}))
        io_ops.append(("jwe.dec_io", {"jwe": dict(det, tag=G.b64u(bytes(16))), "jwk": a["jwk"], "feeds": [ct.hex()], "rand": "00" * 600, "_expect_fail": True, "_why": "dec_io, tag replaced"}))
        io_ops.append(("jwe.dec_io", {"jwe": det, "jwk": a["jwk"], "feeds": [ct.hex(), "00"], "rand": "00" * 600, "_expect_fail": True, "_why": "dec_io, one more byte fed"}))
    def p_io(op, a, real_):
        if "crash" in real_:
            return None
        if op == "jwe.enc_io":
            if not real_.get("ok"):
                return ("enc_io:refused", "jose_jwe_enc_io refuses what jose_jwe_enc accepts: %s" % json.dumps(strip(a))[:300])
            m1, m2 = E.mask(real_["jwe"], a.get("_wrap"), a.get("_zip")), E.mask(a["_oneshot"]["jwe"], a.get("_wrap"), a.get("_zip"))
            if m1 != m2:
                return ("enc_io:differs", "jose_jwe_enc_io gives another object than jose_jwe_enc for the same tape: %s vs %s" % (json.dumps(m1)[:200], json.dumps(m2)[:200]))
            return None
        return p_dec("jwe.dec", a, real_)
    cmp(ctx, io_ops, p_io)
    ctx.count("combined-stream-ops", len(io_ops))
    # encryption to PUBLIC keys (what a sender has), decryption with the private half; content key given without `alg`;
    # `zip` outside the protected header is not honoured (C15) but the token still round-trips
    pub_ops = []
    for wrap in E.ECDH + E.RSA:
        enc = rng.choice(E.ENCS)
        key = E.key_for(pool, wrap, enc, rng)
        pub_ops.append(("jwe.enc", {"jwe": {"protected": {"alg": wrap, "enc": enc}}, "jwk": K.public(key), "pt": pts[2].hex(), "rand": rng.randbytes(300).hex(),
                                    "_wrap": wrap, "_enc": enc, "_zip": False, "_expect_ok": True, "_priv": key}))
        pub_ops.append(("jwe.enc", {"jwe": {"protected": {"enc": enc}}, "jwk": {"keys": [K.public(key)]}, "pt": pts[2].hex(), "rand": rng.randbytes(300).hex(),
                                    "_wrap": wrap, "_enc": enc, "_zip": False, "_expect_ok": True, "_priv": key}))
    for n_ in (16, 24, 32, 48, 64):
        pub_ops.append(("jwe.enc_cek", {"jwe": {}, "cek": {"kty": "oct", "k": G.b64u(rng.randbytes(n_))}, "pt": pts[3].hex(), "rand": rng.randbytes(64).hex(), "_expect_ok": True, "_cekonly": True}))
    pub_ops.append(("jwe.enc_cek", {"jwe": {"protected": "e30"}, "cek": {"kty": "oct", "k": G.b64u(rng.randbytes(16)), "alg": "A128GCM"}, "pt": pts[3].hex(), "rand": rng.randbytes(64).hex(),
                                    "_expect_ok": True, "_cekonly": True}))
    pub_ops.append(("jwe.enc", {"jwe": {"protected": {"alg": "A128KW", "enc": "A128GCM"}, "unprotected": {"zip": "DEF"}}, "jwk": pool["oct-16"], "pt": pts[5].hex(),
                                "rand": rng.randbytes(300).hex(), "_wrap": "A128KW", "_enc": "A128GCM", "_zip": False, "_expect_ok": True, "_priv": pool["oct-16"]}))
    # ciphertext text above the 256 KiB bound of COMPRESSED input, but not compressed: the bound does not apply - with the
    # names in the protected header, in the shared unprotected header only (no protected header at all), per recipient
    bigpt = rng.randbytes(200000)
    for jwe_, rcp_ in (({"protected": {"alg": "A128KW", "enc": "A128GCM"}}, None), ({"unprotected": {"alg": "A128KW", "enc": "A128GCM"}}, None),
                       ({"unprotected": {"enc": "A256CBC-HS512"}}, {"header": {"alg": "A128KW"}}), ({"protected": {"alg": "A128KW", "enc": "A128GCM"}, "unprotected": {"zip": "DEF"}}, None)):
        x_ = {"jwe": jwe_, "jwk": pool["oct-16"], "pt": bigpt.hex(), "rand": rng.randbytes(300).hex(), "_wrap": "A128KW", "_enc": "x", "_zip": False, "_expect_ok": True, "_priv": pool["oct-16"]}
        if rcp_ is not None:
            x_["rcp"] = rcp_
        pub_ops.append(("jwe.enc", x_))
    rp, mp = cmp(ctx, pub_ops, p_enc)
    d2 = []
    for (o, a), r in zip(pub_ops, rp):
        if not r.get("ok"):
            continue
        if a.get("_cekonly"):
            d2.append(("jwe.dec_cek", {"jwe": r["jwe"], "cek": a["cek"], "_pt": a["pt"], "_why": "content key without alg / encoded empty protected"}))
        else:
            d2.append(("jwe.dec", {"jwe": r["jwe"], "jwk": a["_priv"], "rand": "00" * 600, "_pt": a["pt"], "_why": "encrypted to the public half (%s)" % a["_wrap"]}))
    cmp(ctx, d2, p_dec)
    run_infer(ctx, pool, pts)
    run_params(ctx, pool, pts)
    run_multi(ctx, pool, pts)
    run_stream(ctx, pool, pts)
    run_vectors(ctx)


def chunks(rng, data):
    parts, left = [], data
    while left:
        k = rng.randrange(1, min(len(left), 200) + 1)
        parts.append(left[:k].hex())
        left = left[k:]
    if rng.random() < 0.3:
        parts.insert(rng.randrange(len(parts) + 1), "")
    return parts


def run_infer(ctx, pool, pts):
    """nothing named by the caller: key-management and content algorithms are inferred and must be recorded"""
    rng = ctx.rng
    ops = []
    keysets = ["oct-16", "oct-24", "oct-32", "EC-P256", "EC-P384", "EC-P521", "RSA-2048"]
    for name in keysets:
        for jwe in ({}, {"protected": {}}, {"protected": {"kid": "x"}}, {"unprotected": {"kid": "u"}}, {"protected": {"enc": "A256GCM"}}):
            ops.append(("jwe.enc", {"jwe": jwe, "jwk": pool[name], "pt": pts[1].hex(), "rand": rng.randbytes(200).hex(),
                                    "_wrap": "ECDH-ES" if name.startswith(("EC", "RSA")) else None, "_expect_ok": True, "_name": name}))
    for pw in ("pw", "p" * 28, "p" * 40):
        ops.append(("jwe.enc", {"jwe": {}, "jwk": pw, "pt": pts[1].hex(), "rand": rng.randbytes(200).hex(), "_expect_ok": True}))
    for enc in E.ENCS:
        ops.append(("jwe.enc", {"jwe": {}, "jwk": dict(pool[E.OCT_BY_LEN[E.CEKLEN[enc]]], alg=enc), "pt": pts[2].hex(),
                                "rand": rng.randbytes(200).hex(), "_expect_ok": True}))
    real, model = cmp(ctx, ops, p_enc)
    dec = []
    for (op, a), r, m in zip(ops, real, model):
        for side, res in (("jose", r), ("lean", m)):
            if res.get("ok"):
                dec.append(("jwe.dec", {"jwe": res["jwe"], "jwk": a["jwk"], "rand": "00" * 600, "_pt": a["pt"], "_why": side + " inferred algorithms"}))
    cmp(ctx, dec, p_dec)


def run_params(ctx, pool, pts):
    """parameters that steer key management, in every header they may legally sit in, and one call for several keys:
    the token must decrypt with every key, on both sides, using only what it records"""
    rng = ctx.rng
    ops = []
    # PBES2 iteration count given by the caller in the protected / shared unprotected / per-recipient header
    for w in E.PBES2:
        for place in ("protected", "unprotected", "recipient"):
            for p2c in (1000, 1001, 4096):
                for key in ("secret password", pool["oct-24"]):
                    jwe, rcp = {"protected": {"enc": "A128GCM", "alg": w}}, None
                    if place == "protected":
                        jwe["protected"]["p2c"] = p2c
                    elif place == "unprotected":
                        jwe["unprotected"] = {"p2c": p2c}
                    else:
                        rcp = {"header": {"p2c": p2c}}
                    a = {"jwe": jwe, "jwk": key, "pt": pts[1].hex(), "rand": rng.randbytes(200).hex(), "_wrap": w, "_enc": "A128GCM",
                         "_zip": False, "_expect_ok": True, "_why": "p2c=%d in the %s header" % (p2c, place)}
                    if rcp is not None:
                        a["rcp"] = rcp
                    ops.append(("jwe.enc", a))
    # ECDH-ES agreement data in each header
    for w in ("ECDH-ES", "ECDH-ES+A128KW", "ECDH-ES+A256KW"):
        for place in ("protected", "unprotected", "recipient"):
            extra = {"apu": b64u(b"Alice"), "apv": b64u(b"Bob")}
            jwe, rcp = {"protected": {"enc": "A128CBC-HS256", "alg": w}}, None
            if place == "protected":
                jwe["protected"].update(extra)
            elif place == "unprotected":
                jwe["unprotected"] = dict(extra)
            else:
                rcp = {"header": dict(extra)}
            a = {"jwe": jwe, "jwk": pool["EC-P256"], "pt": pts[2].hex(), "rand": rng.randbytes(200).hex(), "_wrap": w, "_enc": "A128CBC-HS256",
                 "_zip": False, "_expect_ok": True, "_why": "apu/apv in the %s header" % place}
            if rcp is not None:
                a["rcp"] = rcp
            ops.append(("jwe.enc", a))
    # one call, several keys: no template, an empty template, one template object with its own header, one template per key
    fresh = lambda n: {"kty": "oct", "k": b64u(rng.randbytes(n))}
    groups = [("A128GCMKW", [fresh(16), fresh(16)]), ("A256GCMKW", [fresh(32), fresh(32), fresh(32)]), ("A128KW", [fresh(16), fresh(16), fresh(16)]),
              ("ECDH-ES+A128KW", [pool["EC-P256"], pool["EC-P256-b"]]), ("ECDH-ES+A256KW", [pool["EC-P521"], pool["EC-P521-b"], pool["EC-P256-c"]]),
              ("PBES2-HS256+A128KW", ["first password", "second password"]), ("RSA-OAEP", [pool["RSA-2048"], pool["RSA-2048-b"]]),
              (None, [fresh(16), pool["EC-P384"], fresh(32)])]
    for w, ks in groups:
        tmpls = [("none", None), ("empty", {}), ("object with header", {"header": {"cty": "text/plain"}}),
                 ("array", [{"header": {"kid": "r%d" % i}} for i in range(len(ks))])]
        for tl, t in tmpls:
            prot = {"enc": "A128GCM"}
            if w and w.startswith("PBES2"):
                prot["p2c"] = 1000
            jwe = {"protected": prot}
            if w and (tl != "array"):
                jwe["unprotected"] = {"alg": w}
            elif w:
                t = [dict(x, header=dict(x["header"], alg=w)) for x in t]
            a = {"jwe": jwe, "jwk": list(ks), "pt": pts[1].hex(), "rand": rng.randbytes(600).hex(), "_wrap": "ECDH-ES" if (w is None or w.startswith(("ECDH", "RSA"))) else w,
                 "_enc": "A128GCM", "_zip": False, "_expect_ok": True, "_keys": ks, "_why": "%d keys (%s), template: %s" % (len(ks), w or "inferred", tl)}
            if t is not None:
                a["rcp"] = t
            ops.append(("jwe.enc", a))
    real, model = cmp(ctx, ops, p_enc)
    dec = []
    for (op, a), r, m in zip(ops, real, model):
        for side, res in (("jose", r), ("lean", m)):
            if not res.get("ok"):
                continue
            tok = res["jwe"]
            keys = a.get("_keys") or [a["jwk"]]
            rcps = tok["recipients"] if isinstance(tok.get("recipients"), list) else [None] * len(keys)
            if len(rcps) != len(keys):
                ctx.pfails.append(("enc:general-form", "%d keys but %d recipients: %s" % (len(keys), len(rcps), json.dumps(tok)[:300]), op, strip(a), res))
                continue
            for i, k in enumerate(keys):
                d = {"jwe": tok, "jwk": k, "rand": "00" * 600, "_pt": a["pt"], "_why": "%s-made, %s, key %d of %d" % (side, a["_why"], i, len(keys))}
                if rcps[i] is not None:
                    d["rcp"] = rcps[i]      # named explicitly: the RSA1_5 shadowing finding is not what is examined here
                dec.append(("jwe.dec", d))
    cmp(ctx, dec, p_dec)
    ctx.count("params:tokens", len(dec))


def run_multi(ctx, pool, pts):
    """several recipients (enc_jwk per key, then enc_cek), every recipient decrypts; re-wrap to a new recipient"""
    rng = ctx.rng
    quick = ctx.tier == "quick"
    kinds = [("A128KW", "oct-16"), ("A256GCMKW", "oct-32"), ("ECDH-ES+A128KW", "EC-P256"), ("RSA-OAEP", "RSA-2048"),
             ("PBES2-HS256+A128KW", "pw"), ("A192KW", "oct-24"), ("ECDH-ES+A256KW", "EC-P521"), ("RSA1_5", "RSA-2048-b")]
    dirkey = {"kty": "oct", "k": b64u(rng.randbytes(16)), "alg": "A128GCM"}
    def key(n):
        return "correct horse" if n == "pw" else dirkey if n == "dirkey" else pool[n]
    state = []
    # the recorded finding, always exercised: an RSA1_5 recipient in front of another RSA recipient
    state.append({"jwe": {"protected": {"enc": "A128GCM"}}, "cek": {}, "sel": [kinds[7], kinds[3]], "i": 0, "enc": "A128GCM", "pt": pts[1]})
    # likewise recorded: a dir recipient in front of a key-wrap recipient (the direct key is the CEK)
    state.append({"jwe": {"protected": {"enc": "A128GCM"}}, "cek": {}, "sel": [("dir", "dirkey"), ("A128KW", "oct-16")], "i": 0, "enc": "A128GCM", "pt": pts[1]})
    for _ in range(30 if quick else 300):
        n = rng.randrange(1, 4)
        sel = [rng.choice(kinds) for _ in range(n)]
        enc = rng.choice(E.ENCS)
        state.append({"jwe": {"protected": {"enc": enc}}, "cek": {}, "sel": sel, "i": 0, "enc": enc, "pt": rng.choice(pts)})
    # the key-management algorithm shared by all recipients (protected or shared unprotected header): recipients
    # then carry no per-recipient header at all
    extra_keys = {}
    def fresh(n, tag):
        extra_keys[tag] = {"kty": "oct", "k": b64u(rng.randbytes(n))}
        return tag
    for place in ("protected", "unprotected"):
        for w, klen in (("A128KW", 16), ("A256KW", 32), ("A192GCMKW", 24)):
            for nrec in (2, 3):
                sel = [(w, fresh(klen, "x-%s-%s-%d-%d" % (place, w, nrec, i))) for i in range(nrec)]
                jwe = {"protected": {"enc": "A128GCM"}}
                if place == "protected":
                    jwe["protected"]["alg"] = w
                else:
                    jwe["unprotected"] = {"alg": w}
                state.append({"jwe": jwe, "cek": {}, "sel": sel, "i": 0, "enc": "A128GCM", "pt": pts[1], "shared": True})
    def key(n, _k=key):
        return extra_keys[n] if n in extra_keys else _k(n)
    for step in range(3):
        ops = []
        live = [s for s in state if s["i"] < len(s["sel"]) and not s.get("dead")]
        for s in live:
            w, kn = s["sel"][s["i"]]
            ops.append(("jwe.enc_jwk", {"jwe": s["jwe"], "rcp": {} if s.get("shared") else {"header": {"alg": w}}, "jwk": key(kn), "cek": s["cek"],
                                        "rand": rng.randbytes(200).hex(), "_wrap": w, "_expect_ok": True}))
        if not ops:
            break
        real, model = cmp(ctx, ops, p_enc)
        for s, r in zip(live, real):
            if r.get("ok"):
                s["jwe"], s["cek"] = r["jwe"], r["cek"]
                s["i"] += 1
            else:
                s["dead"] = True
    ops = []
    done = [s for s in state if not s.get("dead")]
    for s in done:
        ops.append(("jwe.enc_cek", {"jwe": s["jwe"], "cek": s["cek"], "pt": s["pt"].hex(), "rand": rng.randbytes(64).hex(), "_expect_ok": True}))
    real, model = cmp(ctx, ops, p_enc)
    dec, rew = [], []
    for s, r, m in zip(done, real, model):
        for side, res in (("jose", r), ("lean", m)):
            if not res.get("ok"):
                continue
            tok = res["jwe"]
            n = len(s["sel"])
            if n > 1 and not (isinstance(tok.get("recipients"), list) and len(tok["recipients"]) == n and "encrypted_key" not in tok):
                ctx.pfails.append(("enc:general-form", "%d recipients but %s" % (n, json.dumps(tok)[:300]), "jwe.enc_cek", {}, res))
            for w, kn in s["sel"]:
                dec.append(("jwe.dec", {"jwe": tok, "jwk": key(kn), "rand": "00" * 600, "_pt": s["pt"].hex(), "_why": "%s recipient %s of %d" % (side, w, n)}))
            dec.append(("jwe.dec", {"jwe": tok, "jwk": pool["oct-128"], "rand": "00" * 600, "_expect_fail": True, "_why": "foreign key, %d recipients" % n}))
            dec.append(("jwe.dec", {"jwe": tok, "jwk": [pool["oct-128"], key(s["sel"][-1][1])], "rand": "00" * 600, "_pt": s["pt"].hex(), "_why": "key list"}))
            if side == "jose" and not s.get("shared"):
                rew.append((tok, s))
    cmp(ctx, dec, p_dec)
    # re-wrap: recover the CEK with the first recipient's key, wrap it to a new recipient, no re-encryption
    ops = [("jwe.dec_jwk", {"jwe": tok, "jwk": key(s["sel"][0][1]), "rand": "00" * 600}) for tok, s in rew]
    real, model = cmp(ctx, ops, lambda *a: None)
    ops2, keep = [], []
    for (tok, s), r in zip(rew, real):
        if "v" in r:
            w, kn = rng.choice(kinds)
            ops2.append(("jwe.enc_jwk", {"jwe": tok, "rcp": {"header": {"alg": w}}, "jwk": key(kn), "cek": r["v"],
                                         "rand": rng.randbytes(200).hex(), "_wrap": w, "_expect_ok": True}))
            keep.append((s, kn))
        else:
            ctx.pfails.append(("dec_jwk:rejects-valid", "CEK not recovered: " + json.dumps(tok)[:300], "jwe.dec_jwk", {}, r))
    real2, model2 = cmp(ctx, ops2, p_enc)
    dec = []
    for (s, kn), r in zip(keep, real2):
        if r.get("ok"):
            dec.append(("jwe.dec", {"jwe": r["jwe"], "jwk": key(kn), "rand": "00" * 600, "_pt": s["pt"].hex(), "_why": "re-wrapped, new key"}))
            dec.append(("jwe.dec", {"jwe": r["jwe"], "jwk": key(s["sel"][0][1]), "rand": "00" * 600, "_pt": s["pt"].hex(), "_why": "re-wrapped, old key"}))
    cmp(ctx, dec, p_dec)


def run_stream(ctx, pool, pts):
    """streamed encryption and decryption under random chunkings, with and without compression"""
    rng = ctx.rng
    ops = []
    for enc in E.ENCS:
        cek = {"kty": "oct", "k": b64u(rng.randbytes(E.CEKLEN[enc]))}
        for zip_ in (False, True):
            for pt in (pts[1], pts[4], pts[5]):
                jwe = {"protected": dict({"enc": enc}, **({"zip": "DEF"} if zip_ else {}))}
                for _ in range(2):
                    ops.append(("jwe.enc_cek_io", {"jwe": jwe, "cek": cek, "feeds": chunks(rng, pt), "rand": rng.randbytes(32).hex(),
                                                   "_zip": zip_, "_expect_ok": True, "_pt": pt.hex(), "_cek": cek}))
                ops.append(("jwe.enc_cek_io", {"jwe": jwe, "cek": cek, "feeds": [pt.hex()], "rand": rng.randbytes(32).hex(),
                                               "_zip": zip_, "_expect_ok": True, "_pt": pt.hex(), "_cek": cek}))
    real, model = cmp(ctx, ops, p_enc)
    dec = []
    for (op, a), r, m in zip(ops, real, model):
        for side, res in (("jose", r), ("lean", m)):
            if not res.get("ok"):
                continue
            tok = res["jwe"]
            why = "%s streamed enc (%d feeds) zip=%s" % (side, len(a["feeds"]), a["_zip"])
            dec.append(("jwe.dec_cek", {"jwe": tok, "cek": a["_cek"], "_pt": a["_pt"], "_why": why}))
            ct = b64d(tok["ciphertext"])
            dec.append(("jwe.dec_cek_io", {"jwe": {k: v for k, v in tok.items() if k != "ciphertext"}, "cek": a["_cek"],
                                           "feeds": chunks(rng, ct), "_pt": a["_pt"], "_why": why + ", streamed dec"}))
    cmp(ctx, dec, p_dec)


def run_vectors(ctx):
    d = os.path.join(os.environ.get("VERIF_REPO", "/repo"), "tests", "vectors")
    ops = []
    for f in sorted(glob.glob(os.path.join(d, "*.jwe[fg]"))):
        base = f.rsplit(".", 1)[0]
        if not os.path.exists(base + ".pt"):
            continue
        pt = open(base + ".pt", "rb").read()
        kfs = [k for k in glob.glob(base + ".jwk") + glob.glob(base + ".[0-9].jwk") + glob.glob(base + ".jwkset")]
        for kf in kfs:
            try:
                jwe, jwk = json.load(open(f)), json.load(open(kf))
            except Exception:
                raw = open(kf).read().strip()
                try:
                    jwe = json.load(open(f)); jwk = json.loads(raw)
                except Exception:
                    continue
            ops.append(("jwe.dec", {"jwe": jwe, "jwk": jwk, "rand": "00" * 600, "_pt": pt.hex(), "_why": "RFC vector " + os.path.basename(f) + " " + os.path.basename(kf)}))
    cmp(ctx, ops, p_dec)
    ctx.count("rfc-vectors", len(ops))


def replay(ctx, rp):
    ops = [(o, a) for o, a in rp.get("ops", [])] + [(d["op"], d["args"]) for d in rp.get("correspondence_disagreements", [])]
    cmp(ctx, ops, lambda *a: None)
