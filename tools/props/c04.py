"""C04 — JWE encrypt/decrypt round trip, interoperability, re-wrap."""
import copy, glob, json, os
import keys as K
import jwegen as E
from jwsgen import b64u, b64d, enc as encj
from props.c03 import compare, strip

ID = "C04"
RULE = ("jwe.enc on the implementation and on the independent Lean implementation (same RAND_bytes tape) for every "
        "key-management algorithm (21) x content encryption (6) x {zip, no zip} x {no aad, aad shorter/equal/longer "
        "than the protected header} x plaintext lengths 0,1,15,16,17,4096 (65537 thorough) x header placement "
        "(protected / unprotected / per-recipient); bit-for-bit comparison wherever the tape determines the output; "
        "every token decrypted by both sides with the recipient key and refused with a foreign key; multi-recipient "
        "histories and re-wrap; streamed encryption/decryption under random chunkings; RFC 7520 section 5 vectors; "
        "distinct = distinct (op,args); non-trivial = a token is produced or decrypted")
EXPLANATION = ("round-trip theorems are proved on the model for every Prims satisfying the stated laws; this run executes "
               "both implementations on the same inputs and cross-decrypts every token.")
ASSUMPTIONS = ["Jose/Crypto (AES, GCM, CBC, key wrap, RSAES, PBKDF2, ECDH, inflate) is the independent RFC 7518 implementation",
               "compressed tokens: the model emits stored deflate blocks, so ciphertext/tag are compared by cross-decryption"]
BUDGET = {"quick": 900, "thorough": 3600}
TRUSTED = ["Jose/Crypto/*.lean as independent implementation"]

_cur = {}


def canon(op, args, r):
    a = _cur.get(id(args), args)
    if isinstance(r, dict) and r.get("ok") and "jwe" in r:
        out = dict(r, jwe=E.mask(r["jwe"], a.get("_wrap"), a.get("_zip")))
        if "cek" in out and (a.get("_wrap") in ("ECDH-ES",)):
            out["cek"] = "<cek>"
        return out
    return r


def cmp(ctx, ops, p):
    sent = [(o, strip(a)) for o, a in ops]
    for s, (o, a) in zip(sent, ops):
        _cur[id(s[1])] = a
    def pc(op, args, real):
        return p(op, _cur.get(id(args), args), real)
    r = ctx.compare(sent, pc, lambda op, args, real: json.dumps(args, sort_keys=True)[:2000], canon=canon)
    _cur.clear()
    return r


def p_enc(op, args, real):
    if "crash" in real:
        return None
    if args.get("_expect_ok") and not real.get("ok"):
        return ("enc:refused", "encryption refused for a valid combination %s/%s: %s" % (args.get("_wrap"), args.get("_enc"),
                                                                                     json.dumps(strip(args))[:300]))
    return None


def p_dec(op, args, real):
    if "crash" in real:
        return None
    exp = args.get("_pt")
    if exp is not None:
        if not real.get("ok"):
            return ("dec:rejects-valid", "decryption failed (%s): %s" % (args.get("_why"), json.dumps(strip(args))[:400]))
        if real.get("pt") != exp:
            return ("dec:plaintext", "wrong plaintext (%s)" % args.get("_why"))
    if args.get("_expect_fail") and real.get("ok"):
        return ("dec:accepts-foreign", "decrypted with a key of no recipient (%s): %s" % (args.get("_why"), json.dumps(strip(args))[:300]))
    return None


def templates(wrap, enc, zip_, aad, place):
    hdr = {"alg": wrap, "enc": enc}
    prot = {}
    jwe = {}
    rcp = None
    if place == "protected":
        prot.update(hdr)
    elif place == "unprotected":
        jwe["unprotected"] = dict(hdr)
    elif place == "recipient":
        prot["enc"] = enc
        rcp = {"header": {"alg": wrap}}
    elif place == "infer":
        pass
    if zip_:
        prot["zip"] = "DEF"
    if prot or place == "protected":
        jwe["protected"] = prot
    if aad is not None:
        jwe["aad"] = aad
    return jwe, rcp


def run(ctx):
    rng = ctx.rng
    pool = K.pool(ctx.jose)
    quick = ctx.tier == "quick"
    pts = [b"", b"x", rng.randbytes(15), rng.randbytes(16), rng.randbytes(17), b"compressible " * 300] + ([] if quick else [rng.randbytes(65537)])
    ops = []
    for wrap in E.WRAPS:
        for enc in E.ENCS:
            combos = [(False, None, "protected")]
            if not quick or rng.random() < 0.5:
                combos += [(True, None, "protected"), (False, "YWFk", "protected"), (True, "QUFE" * 30, "protected"),
                           (False, "", "protected"), (False, None, "unprotected"), (False, None, "recipient")]
            for zip_, aad, place in combos:
                key = E.key_for(pool, wrap, enc, rng)
                jwe, rcp = templates(wrap, enc, zip_, aad, place)
                for pt in (pts if (not quick and place == "protected") else [rng.choice(pts), pts[0]] if quick else pts[:3]):
                    a = {"jwe": jwe, "jwk": key, "pt": pt.hex(), "rand": rng.randbytes(200).hex(),
                         "_wrap": wrap, "_enc": enc, "_zip": zip_, "_expect_ok": True}
                    if rcp is not None:
                        a["rcp"] = rcp
                    ops.append(("jwe.enc", a))
    real, model = cmp(ctx, ops, p_enc)
    dec_ops = []
    for (op, a), r, m in zip(ops, real, model):
        for side, res in (("jose", r), ("lean", m)):
            if not res.get("ok"):
                continue
            tok = res["jwe"]
            why = "%s-made %s/%s zip=%s" % (side, a["_wrap"], a["_enc"], a["_zip"])
            dec_ops.append(("jwe.dec", {"jwe": tok, "jwk": a["jwk"], "rand": "00" * 600, "_pt": a["pt"], "_why": why}))
            foreign = pool["oct-128"] if not isinstance(a["jwk"], dict) or a["jwk"].get("kty") != "oct" else pool["EC-P256-b"]
            dec_ops.append(("jwe.dec", {"jwe": tok, "jwk": foreign, "rand": "00" * 600, "_expect_fail": True, "_why": why + " foreign key"}))
    cmp(ctx, dec_ops, p_dec)
    ctx.count("tokens", len(dec_ops) // 2)


def replay(ctx, rp):
    ops = [(o, a) for o, a in rp.get("ops", [])] + [(d["op"], d["args"]) for d in rp.get("correspondence_disagreements", [])]
    cmp(ctx, ops, lambda *a: None)
