"""Pure-Python elliptic-curve arithmetic (independent of OpenSSL and of the Lean model):
reference for C10/C11/C13 oracles."""
import base64

CURVES = {
    "P-256": dict(
        p=0xffffffff00000001000000000000000000000000ffffffffffffffffffffffff,
        a=-3,
        b=0x5ac635d8aa3a93e7b3ebbd55769886bc651d06b0cc53b0f63bce3c3e27d2604b,
        gx=0x6b17d1f2e12c4247f8bce6e563a440f277037d812deb33a0f4a13945d898c296,
        gy=0x4fe342e2fe1a7f9b8ee7eb4a7c0f9e162bce33576b315ececbb6406837bf51f5,
        n=0xffffffff00000000ffffffffffffffffbce6faada7179e84f3b9cac2fc632551, len=32),
    "P-384": dict(
        p=0xfffffffffffffffffffffffffffffffffffffffffffffffffffffffffffffffeffffffff0000000000000000ffffffff,
        a=-3,
        b=0xb3312fa7e23ee7e4988e056be3f82d19181d9c6efe8141120314088f5013875ac656398d8a2ed19d2a85c8edd3ec2aef,
        gx=0xaa87ca22be8b05378eb1c71ef320ad746e1d3b628ba79b9859f741e082542a385502f25dbf55296c3a545e3872760ab7,
        gy=0x3617de4a96262c6f5d9e98bf9292dc29f8f41dbd289a147ce9da3113b5f0b8c00a60b1ce1d7e819d7a431d7c90ea0e5f,
        n=0xffffffffffffffffffffffffffffffffffffffffffffffffc7634d81f4372ddf581a0db248b0a77aecec196accc52973, len=48),
    "P-521": dict(
        p=2 ** 521 - 1, a=-3,
        b=0x0051953eb9618e1c9a1f929a21a0b68540eea2da725b99b315f3b8b489918ef109e156193951ec7e937b1652c0bd3bb1bf073573df883d2c34f1ef451fd46b503f00,
        gx=0x00c6858e06b70404e9cd9e3ecb662395b4429c648139053fb521f828af606b4d3dbaa14b5e77efe75928fe1dc127a2ffa8de3348b3c1856a429bf97e7e31c2e5bd66,
        gy=0x011839296a789a3bc0045c8a5fb42c7d1bd998f54449579b446817afbd17273e662c97ee72995ef42640c550b9013fad0761353c7086a272c24088be94769fd16650,
        n=0x01fffffffffffffffffffffffffffffffffffffffffffffffffffffffffffffffffa51868783bf2f966b7fcc0148f709a5d03bb5c9b8899c47aebb6fb71e91386409, len=66),
    "secp256k1": dict(
        p=2 ** 256 - 2 ** 32 - 977, a=0, b=7,
        gx=0x79be667ef9dcbbac55a06295ce870b07029bfcdb2dce28d959f2815b16f81798,
        gy=0x483ada7726a3c4655da4fbfc0e1108a8fd17b448a68554199c47d08ffb10d4b8,
        n=0xfffffffffffffffffffffffffffffffebaaedce6af48a03bbfd25e8cd0364141, len=32),
}


def b64d(s):
    return base64.urlsafe_b64decode(s + "=" * (-len(s) % 4))


def b64u(b):
    return base64.urlsafe_b64encode(b).rstrip(b"=").decode()


def on_curve(c, P):
    if P is None:
        return True
    x, y = P
    return (y * y - (x * x * x + c["a"] * x + c["b"])) % c["p"] == 0


def add(c, P, Q):
    if P is None:
        return Q
    if Q is None:
        return P
    p = c["p"]
    (x1, y1), (x2, y2) = P, Q
    if x1 == x2 and (y1 + y2) % p == 0:
        return None
    if P == Q:
        l = (3 * x1 * x1 + c["a"]) * pow(2 * y1, -1, p) % p
    else:
        l = (y2 - y1) * pow(x2 - x1, -1, p) % p
    x3 = (l * l - x1 - x2) % p
    return (x3, (l * (x1 - x3) - y1) % p)


def neg(c, P):
    return None if P is None else (P[0], (-P[1]) % c["p"])


def mul(c, k, P):
    R = None
    Q = P
    while k:
        if k & 1:
            R = add(c, R, Q)
        Q = add(c, Q, Q)
        k >>= 1
    return R


def point(jwk):
    return (int.from_bytes(b64d(jwk["x"]), "big"), int.from_bytes(b64d(jwk["y"]), "big"))


def scalar(jwk):
    return int.from_bytes(b64d(jwk["d"]), "big")


def to_jwk(crv, P):
    c = CURVES[crv]
    return {"kty": "EC", "crv": crv, "x": b64u(P[0].to_bytes(c["len"], "big")), "y": b64u(P[1].to_bytes(c["len"], "big"))}


def valid_key(jwk):
    """the key-validity predicate of RFC 7518 / SEC1 for a JWK (public part, and d if present)"""
    try:
        c = CURVES[jwk["crv"]]
        x, y = point(jwk)
    except Exception:
        return False
    if not (0 <= x < c["p"] and 0 <= y < c["p"]) or not on_curve(c, (x, y)):
        return False
    if "d" in jwk:
        d = scalar(jwk)
        if not (1 <= d < c["n"]) or mul(c, d, (c["gx"], c["gy"])) != (x, y):
            return False
    return True


def ecdsa_sign(jwk, digest, k):
    """ECDSA (FIPS 186-4) with the given nonce over an already computed digest; returns r || s, each as wide as the
    curve of the key (the JWS encoding)"""
    c = CURVES[jwk["crv"]]
    n = c["n"]
    z = int.from_bytes(digest, "big")
    extra = len(digest) * 8 - n.bit_length()
    if extra > 0:
        z >>= extra
    k = k % (n - 1) + 1
    r = mul(c, k, (c["gx"], c["gy"]))[0] % n
    s_ = pow(k, -1, n) * (z + r * scalar(jwk)) % n
    assert r and s_
    return r.to_bytes(c["len"], "big") + s_.to_bytes(c["len"], "big")


for _c in CURVES.values():
    assert mul(_c, _c["n"], (_c["gx"], _c["gy"])) is None and on_curve(_c, (_c["gx"], _c["gy"]))
