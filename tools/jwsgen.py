"""Shared JWS material: valid (algorithm, key, payload, template) combinations, token
production on both sides, the spec-level verification oracle."""
import base64, copy, json
import keys as K

HS = ["HS256", "HS384", "HS512"]
ES = {"EC-P256": "ES256", "EC-P384": "ES384", "EC-P521": "ES512", "EC-K256": "ES256K",
      "EC-P256-b": "ES256", "EC-P384-b": "ES384", "EC-P521-b": "ES512", "EC-P256-c": "ES256"}
RSA = ["RS256", "RS384", "RS512", "PS256", "PS384", "PS512"]
HLEN = {"HS256": 32, "HS384": 48, "HS512": 64}
DETERMINISTIC = set(HS) | {"RS256", "RS384", "RS512"}
ALL_SIGN = HS + ["ES256", "ES384", "ES512", "ES256K"] + RSA


def b64u(b):
    return base64.urlsafe_b64encode(b).rstrip(b"=").decode()


def b64d(s):
    return base64.urlsafe_b64decode(s + "=" * (-len(s) % 4))


def enc(o):
    return b64u(json.dumps(o, separators=(",", ":")).encode())


def algs_for(name, key):
    if key["kty"] == "oct":
        n = len(b64d(key["k"]))
        return [a for a in HS if HLEN[a] <= n]
    if key["kty"] == "EC":
        return [ES[name]]
    return list(RSA)


def inferred_alg(name, key):
    """what jose documents it infers when nobody names an algorithm"""
    if "alg" in key:
        return key["alg"]
    if key["kty"] == "oct":
        n = len(b64d(key["k"]))
        return "HS512" if n >= 64 else "HS384" if n >= 48 else "HS256" if n >= 32 else None
    if key["kty"] == "EC":
        return ES[name]
    bits = len(b64d(key["n"])) * 8
    return {2048: "RS256", 3072: "RS384", 4096: "RS512"}.get(bits)


def templates(alg):
    """(label, template, where the algorithm comes from)"""
    return [("none-keyalg", None, "key"),
            ("prot-obj", {"protected": {"alg": alg}}, "tmpl"),
            ("prot-str", {"protected": enc({"alg": alg})}, "tmpl"),
            ("header", {"header": {"alg": alg, "kid": "k1"}}, "tmpl"),
            ("prot-obj+hdr", {"protected": {"alg": alg, "crit": ["x"], "x": 1}, "header": {"kid": "é"}}, "tmpl"),
            ("infer", {"protected": {"kid": "i"}}, "infer")]


def payloads(rng, tier):
    ps = [b"", b"a", b"hi", bytes(range(256)), rng.randbytes(55), rng.randbytes(56), rng.randbytes(64), rng.randbytes(4096)]
    if tier == "thorough":
        ps += [rng.randbytes(70000)]
    return ps


def merged_header(sigobj):
    """protected (decoded) then header, most trusted first; None if unusable"""
    if not isinstance(sigobj, dict):
        return None
    p = sigobj.get("protected")
    out = {}
    if p is None and "protected" not in sigobj:
        pass
    elif isinstance(p, str):
        try:
            raw = b64d(p)
            if b64u(raw) != p:
                return None
            d = json.loads(raw)
        except Exception:
            return None
        if not isinstance(d, dict):
            return None
        out.update(d)
    elif isinstance(p, dict):
        out.update(p)
    else:
        return None
    h = sigobj.get("header")
    if "header" in sigobj:
        if not isinstance(h, dict):
            return None
        for k, v in h.items():
            out.setdefault(k, v)
    return out


def sig_objects(jws, sig):
    if sig is not None:
        return [sig] if isinstance(sig, dict) else []
    if isinstance(jws, dict) and isinstance(jws.get("signatures"), list):
        return [s for s in jws["signatures"]]
    return [jws]


def key_list(jwk, _top=True):
    """the keys of an array / JWKSet; lists nested in lists are flattened (a nested list inherits any/all)"""
    ks = jwk if isinstance(jwk, list) else jwk["keys"] if isinstance(jwk, dict) and isinstance(jwk.get("keys"), list) else None
    if ks is None:
        return None
    out = []
    for k in ks:
        sub = key_list(k, False)
        out.extend(sub if sub is not None else [k])
    return out


def pair_queries(jws, sig, jwk):
    """all (sigobj, key) pairs the specification may need: [(alg, key, msg, sigbytes)] keyed by index"""
    keys = key_list(jwk)
    ks = keys if keys is not None else [jwk]
    out = []
    pay = jws.get("payload") if isinstance(jws, dict) else None
    if not isinstance(pay, str):
        return out
    for ki, k in enumerate(ks):
        if isinstance(sig, list):
            sobjs = [sig[ki]] if ki < len(sig) and isinstance(sig[ki], dict) else []
        elif keys is not None and sig is not None and not isinstance(sig, dict):
            # with a key list, a `sig` argument that is neither an object nor an array selects nothing: each key is
            # tried against the signature objects of the JWS itself (json_array_get on a non-array is NULL)
            sobjs = sig_objects(jws, None)
        else:
            sobjs = sig_objects(jws, sig)
        for si, s in enumerate(sobjs):
            if not isinstance(s, dict) or not isinstance(k, dict):
                continue
            prot = s.get("protected")
            if "protected" in s and not isinstance(prot, str):
                continue
            h = merged_header(s)
            if h is None:
                continue
            alg = h.get("alg") if isinstance(h.get("alg"), str) else (k.get("alg") if "alg" not in h else None)
            sv = s.get("signature")
            if not isinstance(alg, str) or not isinstance(sv, str):
                continue
            try:
                sb = b64d(sv)
                if b64u(sb) != sv:
                    continue
            except Exception:
                continue
            msg = (prot or "").encode() + b"." + pay.encode()
            out.append(((ki, si), alg, k, msg, sb))
    return out


def spec_verdict(jws, sig, jwk, all_, valid):
    """the property's statement; `valid` maps (ki, si) -> bool from the raw primitive check"""
    keys = key_list(jwk)
    ks = keys if keys is not None else [jwk]
    if not ks:
        return False
    per_key = []
    for ki, _ in enumerate(ks):
        per_key.append(any(v for (a, b), v in valid.items() if a == ki))
    if keys is not None and all_:
        return all(per_key)
    return any(per_key)
