#!/usr/bin/env python3
"""Core of ./check: build, Lean re-check + audit, correspondence, violation
protocol (DESIGN §5), evidence.  Property-specific parts live in tools/props/."""
import fcntl, hashlib, json, os, random, re, resource, subprocess, sys, threading, time
from concurrent.futures import ThreadPoolExecutor

sys.path.insert(0, os.path.dirname(os.path.abspath(__file__)))
import build_repo, extract_tables

VERIF = build_repo.VERIF
LEAN = os.path.join(VERIF, "lean")
MODEL_EXE = os.path.join(LEAN, ".lake", "build", "bin", "josemodel")
ALLOWED_AXIOMS = {"propext", "Classical.choice", "Quot.sound"}
FORBIDDEN = [r"\bsorry\b", r"\badmit\b", r"^\s*axiom\s", r"native_decide", r"bv_decide",
             r"implemented_by", r"\bunsafe\s", r"maxHeartbeats\s+0\b", r"@\[extern"]
NCPU = os.cpu_count() or 4


def log(*a):
    print(*a, file=sys.stderr, flush=True)


# --------------------------------------------------------------------------
# running the two sides
# --------------------------------------------------------------------------

def _unlimit_stack():
    try:
        resource.setrlimit(resource.RLIMIT_STACK, (resource.RLIM_INFINITY, resource.RLIM_INFINITY))
    except Exception:
        try:
            resource.setrlimit(resource.RLIMIT_STACK, (1 << 30, 1 << 30))
        except Exception:
            pass


def opline(op, args):
    return op + " " + json.dumps(args, ensure_ascii=True, separators=(",", ":"))


def _run_chunk(exe, lines, env, is_model, timeout):
    """Run lines through one process; restart after a crash.  Returns list of result strings."""
    out = []
    i = 0
    while i < len(lines):
        data = "\n".join(lines[i:]) + "\n"
        try:
            r = subprocess.run([exe], input=data.encode(), stdout=subprocess.PIPE, stderr=subprocess.PIPE,
                               env=env, preexec_fn=_unlimit_stack if is_model else None, timeout=timeout)
            got = r.stdout.decode("utf-8", "replace").splitlines()
            rc, errtxt = r.returncode, r.stderr.decode("utf-8", "replace")
        except subprocess.TimeoutExpired as e:
            got = (e.stdout or b"").decode("utf-8", "replace").splitlines()
            rc, errtxt = -9, "timeout"
        n_expected = len(lines) - i
        if len(got) >= n_expected:
            out.extend(got[:n_expected])
            break
        # died on op i+len(got)
        out.extend(got)
        if rc == 97 and not is_model:      # the harness watchdog (_limit_ms) fired
            out.append('{"timeout":true}')
            i = len(out)
            continue
        kind = "model-crash" if is_model else "crash"
        m = re.search(r"(ERROR: \w+Sanitizer: [^\n]*|runtime error: [^\n]*|SUMMARY: [^\n]*)", errtxt)
        fire = re.findall(r"HXFIRE entry=(\S+)", errtxt)
        rec = {kind: (m.group(1) if m else ("rc=%s %s" % (rc, errtxt[-300:])))[:400]}
        if fire:
            rec["entry"] = fire[-1]     # the allocation fault that preceded the crash (C20)
        fr = re.search(r"#\d+ 0x[0-9a-f]+ in (\w+) " + re.escape(build_repo.REPO) + r"/(\S+)", errtxt)
        if fr:
            rec["frame"] = "%s %s" % (fr.group(1), fr.group(2))
        out.append(json.dumps(rec))
        i = len(out)
    return out


def run_lines(exe, lines, is_model=False, nproc=None, timeout=3600, env_extra=None, chunk_min=50):
    if not lines:
        return []
    env = dict(os.environ)
    env.setdefault("ASAN_OPTIONS", "detect_leaks=0:allocator_may_return_null=1:abort_on_error=0")
    env.setdefault("UBSAN_OPTIONS", "print_stacktrace=0:halt_on_error=1")
    if env_extra:
        env.update(env_extra)
    nproc = nproc or NCPU
    n = len(lines)
    # heavy lines (megabyte payloads) are spread one per process: pass chunk_min=1
    nchunks = max(1, min(nproc, n // chunk_min + 1))
    size = (n + nchunks - 1) // nchunks
    chunks = [lines[k:k + size] for k in range(0, n, size)]
    with ThreadPoolExecutor(len(chunks)) as ex:
        res = list(ex.map(lambda c: _run_chunk(exe, c, env, is_model, timeout), chunks))
    return [x for c in res for x in c]


# --------------------------------------------------------------------------
# context handed to property modules
# --------------------------------------------------------------------------

class Ctx:
    def __init__(self, pid, tier, seed, builds, tables, model_ok):
        self.pid, self.tier, self.seed = pid, tier, seed
        self.rng = random.Random((seed << 8) ^ int(hashlib.sha256(pid.encode()).hexdigest()[:8], 16))
        self.builds, self.tables, self.model_ok = builds, tables, model_ok
        self.hx = builds["asan"]["hx"]
        self.jose = builds["asan"]["jose"]
        self.evaluations = 0
        self.disagreements = []      # (op, args, real, model)
        self.pfails = []             # (site, msg, op, args, real)
        self.distinct = set()
        self.samples = []
        self.dist = {}               # distribution counters
        self.notes = []
        self.deadline = None

    def count(self, key, n=1):
        self.dist[key] = self.dist.get(key, 0) + n

    def real(self, ops, kind="asan", **kw):
        """kind: which build of the working tree executes the lines (asan by default; "plain" for megabyte
        payloads, where ASan's allocator makes the library's realloc-per-block sinks take seconds)"""
        return [json.loads(x) for x in run_lines(self.builds[kind]["hx"], [opline(o, a) for o, a in ops], **kw)]

    def model(self, ops, **kw):
        if not self.model_ok:
            return [{"error": "model-unavailable"}] * len(ops)
        return [json.loads(x) for x in run_lines(MODEL_EXE, [opline(o, a) for o, a in ops], is_model=True, **kw)]

    def compare(self, ops, p_check=None, nontrivial=None, canon=None, sample_every=None, chunk_min=50, kind="asan"):
        """Run ops on both sides, diff, apply the direct property oracle to the real results."""
        ops = list(ops)
        if not ops:
            return [], []
        with ThreadPoolExecutor(2) as ex:
            fr = ex.submit(self.real, ops, kind=kind, chunk_min=chunk_min)
            fm = ex.submit(self.model, ops, chunk_min=chunk_min)
            real, model = fr.result(), fm.result()
        self.evaluations += len(ops)
        step = sample_every or max(1, len(ops) // 3)
        for i, ((op, args), r, m) in enumerate(zip(ops, real, model)):
            rc, mc = (canon(op, args, r), canon(op, args, m)) if canon else (r, m)
            if self.model_ok and rc != mc:
                if len(self.disagreements) < 200:
                    self.disagreements.append((op, args, r, m))
                self.count("disagree:" + op)
            if isinstance(r, dict) and "crash" in r:
                self.pfails.append(("crash:" + op, r["crash"], op, args, r))
            if isinstance(r, dict) and r.get("error") in ("undumpable", "op-returned-null"):
                # the operation's JSON result cannot be serialised (cycle, freed or corrupted nodes)
                self.pfails.append(("corrupt-result:" + op, "the result of %s cannot be serialised (%s)" % (op, r["error"]), op, args, r))
            if p_check:
                pf = p_check(op, args, r)
                if pf:
                    if len(self.pfails) < 200:
                        self.pfails.append((pf[0], pf[1], op, args, r))
            key = nontrivial(op, args, r) if nontrivial else json.dumps(r, sort_keys=True)
            if key is not None:
                self.distinct.add(hashlib.sha1((op + "|" + str(key)).encode()).digest()[:8])
            self.count("op:" + op)
            if i % step == 0 and len(self.samples) < 12:
                s = opline(op, args)
                self.samples.append({"op": s if len(s) < 300 else s[:300] + "...", "real": _short(r), "model": _short(m)})
        return real, model


def _short(x):
    s = json.dumps(x, sort_keys=True)
    return x if len(s) < 300 else s[:300] + "..."


# --------------------------------------------------------------------------
# Lean side: build, audit
# --------------------------------------------------------------------------

class LeanResult:
    def __init__(self):
        self.model_ok = False
        self.props_ok = False
        self.theorems = []
        self.axioms = {}
        self.bad_axioms = {}
        self.forbidden_hits = []
        self.build_log = ""
        self.failed_decls = []
        self.leanchecker = None
        self.obligations = 0
        self.discharged = 0


def lake(args, timeout=3600):
    lock = open(os.path.join(LEAN, ".lake.lock"), "w")
    fcntl.flock(lock, fcntl.LOCK_EX)
    try:
        r = subprocess.run(["lake"] + args, cwd=LEAN, stdout=subprocess.PIPE, stderr=subprocess.STDOUT, text=True,
                           timeout=timeout)
        return r.returncode, r.stdout
    finally:
        fcntl.flock(lock, fcntl.LOCK_UN)
        lock.close()


def strip_comments(txt):
    txt = re.sub(r"/-.*?-/", lambda m: "\n" * m.group(0).count("\n"), txt, flags=re.S)
    return re.sub(r"--[^\n]*", "", txt)


def props_module(pid):
    return "Jose.Props." + pid


def props_file(pid):
    return os.path.join(LEAN, "Jose", "Props", pid + ".lean")


def lean_check(pid, do_leanchecker=True):
    """lake build (driver + the property's theorem module), grep audit, #print axioms, leanchecker."""
    res = LeanResult()
    rc, out = lake(["build", "josemodel"])
    res.model_ok = rc == 0 and os.path.exists(MODEL_EXE)
    res.build_log += out[-4000:] if rc else ""
    pf = props_file(pid)
    if not os.path.exists(pf):
        res.build_log += "\nno property module " + pf
        return res
    src = strip_comments(open(pf).read())
    ns = re.search(r"^namespace\s+(\S+)", src, re.M)
    prefix = (ns.group(1) + ".") if ns else ""
    res.theorems = [prefix + m for m in re.findall(r"^\s*theorem\s+([^\s:({\[]+)", src, re.M)]
    res.obligations = len(res.theorems)
    rc, out = lake(["build", props_module(pid)])
    res.props_ok = rc == 0
    if rc:
        res.build_log += out[-6000:]
        res.failed_decls = sorted(set(re.findall(r"error: ([^\n]*)", out)))[:20]
    # forbidden constructs anywhere in the library sources
    for d, _, fs in os.walk(os.path.join(LEAN, "Jose")):
        for f in fs:
            if f.endswith(".lean"):
                p = os.path.join(d, f)
                txt = strip_comments(open(p).read())
                for pat in FORBIDDEN:
                    for m in re.finditer(pat, txt, re.M):
                        # `partial`/extern are allowed only in Driver/ and Crypto/ (not part of any theorem)
                        res.forbidden_hits.append("%s: %s" % (os.path.relpath(p, LEAN), m.group(0).strip()))
    if res.props_ok and res.theorems:
        tmp = os.path.join(LEAN, ".audit_%s_%d.lean" % (pid, os.getpid()))
        with open(tmp, "w") as f:
            f.write("import %s\n" % props_module(pid))
            for t in res.theorems:
                f.write("#print axioms %s\n" % t)
        try:
            r = subprocess.run(["lake", "env", "lean", tmp], cwd=LEAN, stdout=subprocess.PIPE,
                               stderr=subprocess.STDOUT, text=True, timeout=900)
            txt = r.stdout
        finally:
            os.unlink(tmp)
        for t in res.theorems:
            m = re.search(r"'%s' depends on axioms: \[([^\]]*)\]" % re.escape(t), txt, re.S)
            if m:
                ax = [a.strip() for a in m.group(1).replace("\n", " ").split(",") if a.strip()]
            elif re.search(r"'%s' does not depend on any axioms" % re.escape(t), txt):
                ax = []
            else:
                ax = ["<unknown: not found>"]
            res.axioms[t] = ax
            bad = [a for a in ax if a not in ALLOWED_AXIOMS]
            if bad:
                res.bad_axioms[t] = bad
        res.discharged = len([t for t in res.theorems if t not in res.bad_axioms])
        if do_leanchecker:
            r = subprocess.run(["lake", "env", "leanchecker", props_module(pid)], cwd=LEAN,
                               stdout=subprocess.PIPE, stderr=subprocess.STDOUT, text=True, timeout=1800)
            res.leanchecker = (r.returncode == 0)
            if r.returncode:
                res.build_log += "\nleanchecker: " + r.stdout[-2000:]
                res.discharged = 0
    if res.forbidden_hits:
        res.discharged = 0
    return res


# --------------------------------------------------------------------------
# known findings
# --------------------------------------------------------------------------

def load_known():
    p = os.path.join(VERIF, "known_findings.json")
    if not os.path.exists(p):
        return []
    return json.load(open(p)).get("findings", [])


def match_known(pid, site, known):
    for k in known:
        if k.get("status") == "open" and k.get("property") == pid and k.get("site") == site:
            return k
    return None


# --------------------------------------------------------------------------
# main
# --------------------------------------------------------------------------

def write_evidence(pid, ev):
    os.makedirs(os.path.join(VERIF, "evidence"), exist_ok=True)
    p = os.path.join(VERIF, "evidence", pid + ".json")
    with open(p + ".tmp", "w") as f:
        json.dump(ev, f, indent=1, sort_keys=True)
    os.replace(p + ".tmp", p)


def write_replay(pid, kind, payload):
    d = os.path.join(VERIF, "work", "replays")
    os.makedirs(d, exist_ok=True)
    p = os.path.join(d, "%s-%s-%d.json" % (pid, kind, int(time.time() * 1000) % 10 ** 10))
    with open(p, "w") as f:
        json.dump(payload, f, indent=1, sort_keys=True, default=str)
    return p


def run_check(mod, tier, seed, replay=None):
    pid = mod.ID
    t0 = time.time()
    kinds = getattr(mod, "BUILDS", ["asan"])
    builds = {}
    for k in set(kinds) | {"asan"}:
        builds[k] = build_repo.build(k)
    try:
        tables = extract_tables.main()
    except extract_tables.TranslatorCrash as e:
        # the tie between model and code cannot be re-established: the code built from the working tree dies on an
        # operation of a regenerated grid.  That operation is a concrete input; re-run it for the sanitizer's verdict.
        c0 = Ctx(pid, tier, seed, builds, {}, False)
        r = c0.real([(e.op, e.args_)])[0]
        concrete = pid in (e.grid, "C09") and isinstance(r, dict) and "crash" in r
        rp = write_replay(pid, "TR", {"property": pid, "kind": "translator-crash", "grid": e.grid, "message": str(e),
                                      "correspondence_that_no_longer_checks": "Jose/Grid/%s.lean cannot be regenerated (model_is_code_on_grid of %s)" % (e.grid, e.grid),
                                      "ops": [[e.op, e.args_]], "real": r, "seed": seed, "tier": tier})
        print("VIOLATION property=%s replay=%s%s" % (pid, rp, "" if concrete else " no-failing-input-found"))
        log("[%s] translator crash: %s" % (pid, e))
        return 1
    lr = {}
    th = threading.Thread(target=lambda: lr.setdefault("r", lean_check(pid, do_leanchecker=True)))
    # the driver must exist before the correspondence can run: build first (fast when warm)
    rc, out = lake(["build", "josemodel"])
    model_ok = rc == 0 and os.path.exists(MODEL_EXE)
    th.start()
    ctx = Ctx(pid, tier, seed, builds, tables, model_ok)
    ctx.deadline = t0 + (getattr(mod, "BUDGET", {}).get(tier, 600))
    err = None
    try:
        if replay:
            mod.replay(ctx, json.load(open(replay)))
        else:
            # the corpus first: replay files of every defect this property's check has found (fixed ones must stay
            # fixed, open ones are matched against known_findings.json like any other failure)
            cdir = os.path.join(VERIF, "corpus", pid)
            # (only for modules whose replay() applies the same canonicalisation and oracles as run(): CORPUS_FIRST)
            for f in sorted(os.listdir(cdir)) if (os.path.isdir(cdir) and getattr(mod, "CORPUS_FIRST", False)) else []:
                if f.endswith(".json"):
                    n0 = ctx.evaluations
                    mod.replay(ctx, json.load(open(os.path.join(cdir, f))))
                    ctx.count("corpus-replays")
                    ctx.count("corpus-ops", ctx.evaluations - n0)
            mod.run(ctx)
    except Exception as e:  # a harness failure is never silently a pass
        import traceback
        err = traceback.format_exc()
        log(err)
    th.join()
    lean = lr["r"]
    if not model_ok:
        lean.build_log = out[-4000:] + lean.build_log

    known = load_known()
    violations = []
    known_hits = []
    if os.environ.get("VERIF_DUMP_PFAILS"):       # debugging aid: every oracle failure of this run, not only the first per site
        with open(os.environ["VERIF_DUMP_PFAILS"], "w") as f:
            for site, msg, op, args, real in ctx.pfails:
                f.write(json.dumps({"site": site, "msg": msg[:300], "op": op}) + "\n")
    # 1. direct property oracle failures on the real code
    seen_sites = set()
    for site, msg, op, args, real in ctx.pfails:
        k = match_known(pid, site, known)
        if k:
            if site not in seen_sites:
                known_hits.append((k, msg))
            seen_sites.add(site)
            continue
        if site in seen_sites:
            continue
        seen_sites.add(site)
        rp = write_replay(pid, "P", {"property": pid, "kind": "property-oracle", "site": site, "message": msg,
                                     "ops": [[op, args]], "real": real, "seed": seed, "tier": tier})
        violations.append((rp, ""))
    # 2. proof obligations / correspondence no longer check
    t_broken = (not lean.props_ok) or lean.bad_axioms or lean.forbidden_hits or (lean.leanchecker is False) \
        or lean.obligations == 0 or lean.discharged != lean.obligations
    r_broken = bool(ctx.disagreements) or not model_ok or err is not None
    if (t_broken or r_broken) and not violations:
        # a search already ran (the generators apply P to every real result); optionally deepen it
        extra = getattr(mod, "search", None)
        if extra and not replay:
            try:
                extra(ctx)
            except Exception:
                import traceback
                log(traceback.format_exc())
            for site, msg, op, args, real in ctx.pfails:
                if site in seen_sites or match_known(pid, site, known):
                    continue
                seen_sites.add(site)
                rp = write_replay(pid, "P", {"property": pid, "kind": "property-oracle", "site": site,
                                             "message": msg, "ops": [[op, args]], "real": real, "seed": seed})
                violations.append((rp, ""))
    if (t_broken or r_broken) and not violations:
        # disagreements explained entirely by known findings do not count
        dis = [d for d in ctx.disagreements if not getattr(mod, "disagreement_known", lambda *a: False)(d, known_hits)]
        if t_broken or dis or not model_ok or err:
            rp = write_replay(pid, "TR", {
                "property": pid, "kind": "obligation-or-correspondence-broken",
                "theorems_not_checked": lean.failed_decls or sorted(lean.bad_axioms) or
                    ([] if lean.props_ok else [props_module(pid)]),
                "forbidden": lean.forbidden_hits, "leanchecker": lean.leanchecker,
                "lean_log_tail": lean.build_log[-3000:],
                "correspondence_disagreements": [
                    {"op": op, "args": args, "real": r, "model": m} for op, args, r, m in dis[:20]],
                "harness_error": err, "model_built": model_ok, "seed": seed, "tier": tier})
            violations.append((rp, " no-failing-input-found"))

    wall = time.time() - t0
    ev = {
        "property_id": pid, "tier": tier, "seed": seed, "level": "proof", "wall_s": round(wall, 2),
        "violations": len(violations),
        "coverage": {
            "obligations": lean.obligations, "discharged": lean.discharged if not t_broken else min(lean.discharged, lean.obligations),
            "checker_cmd": "lake build %s && lake env lean <#print axioms of every theorem> && lake env leanchecker %s"
                           % (props_module(pid), props_module(pid)),
            "trusted_base": ["Lean 4.33.0 kernel (+ leanchecker re-check: %s)" % lean.leanchecker,
                             "axioms: " + ", ".join(sorted({a for l in lean.axioms.values() for a in l}) or ["none"]),
                             "tools/extract_tables.py (tables regenerated from the working tree this run)",
                             "correspondence harness harness/hx*.c + generators tools/props/%s.py" % pid.lower()]
                            + list(getattr(mod, "TRUSTED", [])),
            "theorems": lean.theorems,
            "evaluations": ctx.evaluations,
            "distinct_nontrivial": len(ctx.distinct),
            "rule": getattr(mod, "RULE", ""),
            "samples": ctx.samples[:12] or [{"note": "no correspondence samples"}],
            "traces_validated_against_impl": ctx.evaluations,
            "disagreements": len(ctx.disagreements),
            "property_oracle_failures": len(ctx.pfails),
            "known_findings_hit": [k["site"] for k, _ in known_hits],
            "distribution": dict(sorted(ctx.dist.items())),
            "exhaustive": bool(getattr(ctx, "exhaustive", False)),
            "explanation": getattr(mod, "EXPLANATION", ""),
            "notes": ctx.notes,
            "tables_regenerated": True,
            "repo_build_key": builds["asan"]["key"],
        },
        "assumptions": list(getattr(mod, "ASSUMPTIONS", [])),
    }
    write_evidence(pid, ev)
    for k, msg in known_hits:
        print("KNOWN-FINDING: property=%s %s (%s)" % (pid, k.get("what", k["site"]), k["site"]))
    for rp, suffix in violations:
        print("VIOLATION property=%s replay=%s%s" % (pid, rp, suffix))
    log("[%s] tier=%s seed=%d wall=%.1fs obligations=%d discharged=%d evals=%d distinct=%d disagreements=%d pfails=%d" % (
        pid, tier, seed, wall, lean.obligations, lean.discharged, ctx.evaluations, len(ctx.distinct),
        len(ctx.disagreements), len(ctx.pfails)))
    if t_broken:
        log("LEAN:", lean.build_log[-1500:], lean.bad_axioms, lean.forbidden_hits[:5])
    for d in ctx.disagreements[:5]:
        log("DISAGREE:", json.dumps(d)[:600])
    return 1 if violations else 0
