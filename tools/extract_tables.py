#!/usr/bin/env python3
"""Translator: regenerate lean/Jose/Tables.lean from /repo's current working tree.

Sources of truth (nothing is copied from a previous run):
  * `hx tables`  — walks jose_hook_alg_list()/jose_hook_jwk_list() of the library
    objects just built from the working tree and prints macros from its headers;
  * `cc -E -dM lib/openssl/pbes2.c` for the two iteration-count #defines;
  * a behavioural probe for the b64 streaming block sizes.
The file is only rewritten when its content changes, so an unchanged tree costs no
Lean rebuild; any change makes `lake build` re-check every table-dependent theorem.
"""
import json, os, subprocess, sys, re, base64
sys.path.insert(0, os.path.dirname(os.path.abspath(__file__)))
import build_repo

VERIF = build_repo.VERIF
OUT = os.path.join(VERIF, "lean", "Jose", "Tables.lean")
OUT_SUG = os.path.join(VERIF, "lean", "Jose", "SugTable.lean")
OUT_GRID = os.path.join(VERIF, "lean", "Jose", "GridTable.lean")


def lean_str(s):
    """a Lean string literal (control characters as \\xHH, everything else raw UTF-8)"""
    out = ['"']
    for ch in s:
        o = ord(ch)
        if ch == '"':
            out.append('\\"')
        elif ch == "\\":
            out.append("\\\\")
        elif o < 0x20 or o == 0x7f:
            out.append("\\x%02x" % o)
        else:
            out.append(ch)
    out.append('"')
    return "".join(out)


def ljs(v):
    """a JSON value as a Lean `Json` term (strings through lean_str; no reals)"""
    if v is None:
        return "N"
    if v is True or v is False:
        return "(B %s)" % ("true" if v else "false")
    if isinstance(v, int):
        return "(I %d)" % v if v >= 0 else "(I (%d))" % v
    if isinstance(v, str):
        return "(S %s)" % lean_str(v)
    if isinstance(v, list):
        return "(A [" + ", ".join(ljs(x) for x in v) + "])"
    if isinstance(v, dict):
        return "(O [" + ", ".join("(%s, %s)" % (lean_str(k), ljs(x)) for k, x in v.items()) + "])"
    raise SystemExit("translator-failed: cannot render %r" % (v,))


def grid_ops(tabs):
    """fixed grids of pure operations, per property: {pid: [(op, args)]}"""
    import itertools
    g = {}
    # C05: the grant decision
    allops = ["sign", "verify", "encrypt", "decrypt", "wrapKey", "unwrapKey", "deriveKey", "deriveBits"]
    kos = [None, [], [5], ["sign", 5], "sign", allops, ["sign", "verify"], ["encrypt", "decrypt"], ["wrapKey", "unwrapKey", "deriveKey"]] + [[o] for o in allops]
    rows = []
    for use in ("ABSENT", "sig", "enc", "other", 5):
        for ko in kos:
            jwk = {"kty": "oct"}
            if use != "ABSENT":
                jwk["use"] = use
            if ko is not None:
                jwk["key_ops"] = ko
            for op in allops + ["junk"]:
                for req in (False, True):
                    rows.append(("jwk.prm", {"jwk": jwk, "op": op, "req": req}))
    rows += [("jwk.prm", {"jwk": j, "op": "sign", "req": r}) for j in (5, None, [], "k") for r in (False, True)]
    rows += [("jwk.prm", {"jwk": {"use": "sig"}, "req": r}) for r in (False, True)]
    g["C05"] = rows
    # C06: public export
    rows = []
    base = {"oct": {"kty": "oct", "k": "AAAA"}, "EC": {"kty": "EC", "crv": "P-256", "x": "AA", "y": "AA", "d": "AA"},
            "RSA": {"kty": "RSA", "n": "AA", "e": "AQAB", "d": "AA", "p": "AA", "q": "AA", "dp": "AA", "dq": "AA", "qi": "AA", "oth": [{"r": "AA"}]}}
    prv = {"oct": ["k"], "EC": ["d"], "RSA": ["d", "p", "q", "dp", "dq", "qi", "oth"]}
    kovs = [None, ["sign", "verify"], ["decrypt", "encrypt", "wrapKey", "unwrapKey", "deriveKey", "deriveBits"], ["sign", 5, "verify"], [], "sign"]
    for kty, b in base.items():
        subsets = [[]] + [[m] for m in prv[kty]] + [prv[kty]] + ([prv[kty][:3], prv[kty][3:]] if kty == "RSA" else [])
        for drop in subsets:
            for ko in kovs:
                for name in (kty, kty.lower(), kty[0] + kty[1:].swapcase()):
                    k = {m: v for m, v in b.items() if m not in drop}
                    k["kty"] = name
                    k["kid"] = "keep me"
                    if ko is not None:
                        k["key_ops"] = ko
                    rows.append(("jwk.pub", {"jwk": k}))
    for j in ({"kty": "OKP", "d": "AA"}, {"k": "AA"}, {"kty": 5}, 5, None, "s", [], {}, [base["oct"], base["EC"]], {"keys": [base["RSA"], base["oct"]]},
              {"keys": [base["oct"], {"kty": "nope"}, base["EC"]]}, [base["EC"], 5], {"keys": 5}, {"keys": []}, [[base["oct"]]], {"keys": [{"keys": [base["oct"]]}]}):
        rows.append(("jwk.pub", {"jwk": j}))
    g["C06"] = rows
    # C12: key equality
    ks = [base["oct"], dict(base["oct"], k="AAAB"), dict(base["oct"], kid="x"), base["EC"], dict(base["EC"], x="AB"), {k: v for k, v in base["EC"].items() if k != "d"},
          dict(base["EC"], kty="ec"), base["RSA"], dict(base["RSA"], e="AQAC"), {"kty": "oct"}, {"kty": "nope", "k": "AAAA"}, {"k": "AAAA"}, 5, None]
    g["C12"] = [("jwk.eql", {"a": a, "b": b}) for a in ks for b in ks]
    # C15: header merge (the generator of the check, which is deterministic)
    sys.path.insert(0, os.path.join(VERIF, "tools"))
    from props import c15, c16
    def has_real(v):
        return isinstance(v, float) or (isinstance(v, list) and any(has_real(x) for x in v)) or (isinstance(v, dict) and any(has_real(x) for x in v.values()))
    g["C15"] = [(o, a) for o, a in c15.gen(None) if not has_real(a)]
    # C16: add_entity histories of length <= 2
    rows = []
    for kind in ("jws", "jwe"):
        pl, keys = c16.SETS[kind]
        es = c16.entries(kind)[:4] + [5]
        for st in c16.starts(kind):
            for n in (1, 2):
                for hist in itertools.product(es, repeat=n):
                    rows.append(("misc.entity_hist", {"kind": kind, "start": st, "objs": list(hist), "plural": pl, "keys": keys}))
    for o in ({"protected": {"alg": "x", "b": [1, {"c": "é"}]}}, {"protected": "abc"}, {"protected": 5}, {}, 5, {"protected": {}}, {"protected": {"z": 1, "a": "\u00e9\n\"q\\"}}):
        rows.append(("misc.encode_protected", {"obj": o}))
    g["C16"] = rows
    # C08: buffer forms of the codec
    rows = []
    alpha = [0x41, 0x42, 0x51, 0x5f, 0x2d, 0x3d, 0x2b, 0x2f, 0x20, 0x00, 0xff, 0x7a]
    texts = [[]] + [[a] for a in alpha] + [[a, b] for a in alpha for b in alpha]
    texts += [[0x51, 0x55, c] for c in alpha] + [[0x51, 0x55, 0x4a, c] for c in alpha] + [[0x51, 0x55, 0x4a, 0x44, c] for c in alpha[:6]]
    texts += [list(b"QUJDREVGRw"), list(b"QUJDREVGRx"), list(b"QUJDREVG"), list(b"QUJDREVGR0g"), list(b"QUJDREVGR0h")]
    for t in texts:
        need = len(t) // 4 * 3 + max(len(t) % 4 - 1, 0)
        for ol in (None, need, need - 1 if need else 0, need + 1):
            a = {"in": bytes(t).hex()}
            if ol is not None:
                a["ol"] = ol
            rows.append(("b64.dec_buf", a))
    bs = [[]] + [[a] for a in (0, 1, 0x41, 0xff)] + [[a, b] for a in (0, 0x41, 0xff) for b in (0, 0x41, 0xff)] + \
         [[a, b, c] for a in (0, 0xff) for b in (0, 0x41) for c in (1, 0xff)] + [list(b"ABCDEFG"), list(range(250, 256)) + list(range(0, 5))]
    for b in bs:
        need = (len(b) + 2) // 3 * 4 - ((3 - len(b) % 3) % 3)
        for ol in (None, need, need - 1 if need else 0, need + 1):
            a = {"in": bytes(b).hex()}
            if ol is not None:
                a["ol"] = ol
            rows.append(("b64.enc_buf", a))
        rows.append(("b64.enc", {"in": bytes(b).hex()}))
    for j in ("QUJD", "QUJ", "QU", "Q", "", "QUJD=", "Q UJD", 5, None, ["QUJD"], "QUJE", "QUI", "QUH", "____", "----", "\u00e9"):
        rows.append(("b64.dec", {"j": j}))
        rows.append(("b64.dec", {"j": j, "ol": 3}))
        rows.append(("b64.dec", {"j": j, "ol": 2}))
    g["C08"] = rows
    # C07: chains of the public constructors without OpenSSL/zlib stages: every composition of lengths 0..5 into feeds
    from props import c07
    import random as _random
    r7 = _random.Random(7)
    rows = []
    shapes = [sh for sh in c07.SHAPES_SMALL if not c07.has_xform(sh)]
    for sh in shapes:
        for n in range(0, 6):
            for data in (bytes(r7.randrange(256) for _ in range(n)), c07.ref_enc(bytes(r7.randrange(256) for _ in range(n)))[:n].ljust(n, b"A")):
                for parts in c07.compositions(n):
                    rows.append(("io.run", {"chain": sh, "feeds": c07.split(data, parts)}))
        rows.append(("io.run", {"chain": sh, "feeds": ["", ""]}))
    d10 = bytes(range(65, 75))
    for w in (lambda x: x, lambda x: ["b64enc", x], lambda x: ["b64dec", x], lambda x: ["plex", True, [["malloc"], x]], lambda x: ["plex", False, [["malloc"], x]],
              lambda x: ["plex", False, [x, x]], lambda x: ["b64enc", ["plex", False, [["b64dec", x], ["buffer", 10]]]]):
        for fa in (0, 1, 2, 3, None):
            ch = w(["probe", fa])
            dd = c07.ref_enc(d10) if ch[0] == "b64dec" else d10
            rows.append(("io.run", {"chain": ch, "feeds": [bytes([b]).hex() for b in dd]}))
            rows.append(("io.run", {"chain": ch, "feeds": [dd.hex()]}))
    g["C07"] = rows
    # C17: configuration-context histories of length <= 2 after two contexts were created
    from props import c17
    al = c17.alphabet(tabs["cfg_err_base"], 2)
    g["C17"] = [("cfg.hist", {"ops": [["new"], ["new"]] + [list(x) for x in h]}) for n in range(0, 3) for h in itertools.product(al, repeat=n)]
    # C19: `jose fmt` programs: every option (with arguments from the small alphabet of the check) after each stack
    # prefix, and every pair of options after two of them; printed with -o- at the end
    from props import c19
    V = c19.opt_variants()
    V1 = [v for v in V if not (v[0] == "j" and isinstance(v[1], float))]
    pushes = [[], [("j", [1, 2, 3])], [("j", {"a": 1, "b": [2]})], [("j", "str")], [("j", [1, 2, 3]), ("j", {"k": 0})], [("j", {"a": 1}), ("j", [7, 8, 9, 10])],
              [("j", [[1], [2]]), ("g", "0")]]
    rows = []
    for pre in pushes:
        for v in V1:
            rows.append(pre + [v, ("o", "-")])
    small = [v for v in V1 if v[0] in "XOAEUcaxlegsdtMiQ" and (v[1] in (None, 0, 1, -1, "a", "0", "-1"))]
    for pre in (pushes[6],):
        for v in small:
            for w in small:
                rows.append(pre + [v, w, ("o", "-")])
    def hasreal(prog):
        return any("1.5" in json.dumps(p) for o, p in prog)
    g["C19"] = [("cli.run", {"argv": c19.argv_of(pr)}) for pr in rows if not hasreal(pr)]
    return g


def pure_cli_lines():
    """command lines of the subcommands that need no primitive (b64 enc/dec, jwk pub/eql/use, jws fmt, jwe fmt) in many
    spellings, deterministic: used by the C18 correspondence (the kernel is too slow on the command-line model for a
    grid theorem: text decoding, option and compact parsing over byte lists take minutes per 50 rows)"""
    hx_ = lambda b: (b if isinstance(b, bytes) else b.encode()).hex()
    js_ = lambda o: json.dumps(o, separators=(",", ":"))
    pool = json.load(open(os.path.join(VERIF, "corpus", "keys", "pool.json")))
    rows = []
    def cli(argv, files=None, stdin=None):
        a = {"argv": argv, "files": files or {}}
        if stdin is not None:
            a["stdin"] = stdin
        rows.append(("cli.run", a))
    for data in (b"", b"a", b"ab", b"abc", bytes(range(0, 256, 37)), b"\xff\xfe.\n"):
        cli(["b64", "enc", "-I", "d.bin"], {"d.bin": hx_(data)})
        cli(["b64", "enc", "-I", "-"], {}, hx_(data))
        cli(["b64", "enc", "-I", "d.bin", "-o", "o.txt"], {"d.bin": hx_(data)})
        txt = base64.urlsafe_b64encode(data).rstrip(b"=").decode()
        for tt in (txt, txt + "\n", " " + txt[:3] + " \n" + txt[3:], txt + "=", txt + "*", txt[:-1] if txt else "A"):
            cli(["b64", "dec", "-i", "t.txt"], {"t.txt": hx_(tt)})
            cli(["b64", "dec", "-i", "-", "-O", "o.bin"], {}, hx_(tt))
    good = [pool["oct-16"], pool["EC-P256"], pool["EC-P521"], {"kty": "RSA", "n": "AQAB", "e": "AQAB", "d": "AA", "p": "AA", "q": "AA", "dp": "AA", "dq": "AA", "qi": "AA"}]
    broken = [{"kty": "EC", "crv": "P-256", "x": "AAAA"}, {"kty": "nope", "k": "AA"}, {"k": "AAAA"}, {"kty": "oct"}, 5]
    for ks in [[k] for k in good + broken] + [good[:2], [{"keys": good[:3]}], [good[0], {"kty": "oct", "k": 5}]]:
        for set_ in (False, True):
            fs = {"k%d.jwk" % i: hx_(js_(k)) for i, k in enumerate(ks)}
            cli(["jwk", "pub"] + sum((["-i", "k%d.jwk" % i] for i in range(len(ks))), []) + (["-s"] if set_ else []), fs)
    cli(["jwk", "pub", "-i", js_(good[1]), "-o", "pub.jwk"])
    import itertools as _it
    for a_, b_ in _it.product(good[:3] + broken[:2], repeat=2):
        cli(["jwk", "eql", "-i", "a.jwk", "-i", "b.jwk"], {"a.jwk": hx_(js_(a_)), "b.jwk": hx_(js_(b_))})
    cli(["jwk", "eql", "-i", "a.jwk"], {"a.jwk": hx_(js_(good[0]))})
    for k in [good[0], dict(good[0], use="sig"), dict(good[1], key_ops=["verify"]), dict(good[0], use="enc", key_ops=["sign"])]:
        for uses in (["sign"], ["sign", "verify"], ["encrypt"], ["nope"]):
            for flags in ([], ["-a"], ["-r"], ["-a", "-r"], ["-s"]):
                for outf in (None, "u.jwk"):
                    cli(["jwk", "use", "-i", "k.jwk"] + sum((["-u", u] for u in uses), []) + flags + (["-o", outf] if outf else []), {"k.jwk": hx_(js_(k))})
    jtoks = [{"payload": "cGF5", "protected": "cA", "signature": "c2ln"}, {"payload": "cGF5", "signatures": [{"protected": "cA", "signature": "c2ln"}]},
             {"payload": "cGF5", "signatures": [{"protected": "cA", "signature": "c2ln"}, {"protected": "cQ", "signature": "c2lo"}]},
             {"payload": "cGF5", "protected": "cA", "header": {"kid": "k"}, "signature": "c2ln"}, {"payload": "cGF5", "signature": "c2ln"},
             {"payload": 5, "signature": "c2ln"}, {"payload": "cGF5", "protected": 5, "signature": "c2ln"}, {"payload": "cGF5"}, {"signature": "c2ln", "protected": "cA"}]
    etoks = [{"ciphertext": "Y3Q", "iv": "aXY", "protected": "cA", "tag": "dGFn", "encrypted_key": "ZWs"}, {"ciphertext": "Y3Q", "iv": "aXY", "protected": "cA", "tag": "dGFn", "recipients": [{"encrypted_key": "ZWs"}]},
             {"ciphertext": "Y3Q", "iv": "aXY", "protected": "cA", "tag": "dGFn", "recipients": [{"encrypted_key": "ZWs", "header": {"alg": "x"}}]},
             {"ciphertext": "Y3Q", "iv": "aXY", "protected": "cA", "tag": "dGFn", "recipients": [{"encrypted_key": "ZWs"}, {"encrypted_key": "ZWt"}]},
             {"ciphertext": "Y3Q", "iv": "aXY", "protected": "cA", "tag": "dGFn", "recipients": []}, {"ciphertext": "Y3Q", "iv": "aXY", "protected": "cA", "tag": "dGFn", "recipients": 5},
             {"ciphertext": "Y3Q", "tag": "dGFn"}, {"ciphertext": "Y3Q"}, {"ciphertext": "Y", "tag": "dGFn"}, {"ciphertext": 5, "tag": "dGFn"}, {"tag": "dGFn", "iv": "aXY"},
             {"ciphertext": "Y3Q", "tag": "dGFn", "iv": 5}, {"ciphertext": "Y3Q", "recipients": [{"tag": "dGFn"}]}]
    for sub, toks, comp, member, raw in (("jws", jtoks, lambda t_: "%s.%s.%s" % (t_.get("protected", ""), t_.get("payload", ""), t_.get("signature", "")), "payload", b"pay"),
                                         ("jwe", etoks, lambda t_: ".".join(str(t_.get(m_, "")) for m_ in ("protected", "encrypted_key", "iv", "ciphertext", "tag")), "ciphertext", b"ct")):
        for t_ in toks:
            for extra in ([], ["-c"], ["-o", "out.txt"], ["-c", "-O", "body.bin"], ["-O", "body.bin"]):
                cli([sub, "fmt", "-i", js_(t_)] + extra)
            cli([sub, "fmt", "-i", "tok.json", "-c"], {"tok.json": hx_(" \n" + js_(t_))})
            cli([sub, "fmt", "-i", "-"], {}, hx_(js_(t_)))
            det = {k_: v_ for k_, v_ in t_.items() if k_ != member}
            cli([sub, "fmt", "-i", js_(det), "-I", "body.bin"], {"body.bin": hx_(raw)})
            cli([sub, "fmt", "-i", js_(det), "-I", "body.bin", "-c"], {"body.bin": hx_(raw)})
        t0 = toks[0]
        for extra in ([], ["-c"], ["-O", "body.bin"]):
            cli([sub, "fmt", "-i", comp(t0)] + extra)
            cli([sub, "fmt", "-i", "tok.txt"] + extra, {"tok.txt": hx_(comp(t0))})
            cli([sub, "fmt", "-i", "-"] + extra, {}, hx_(comp(t0)))
        detc = comp({k_: v_ for k_, v_ in t0.items() if k_ != member})
        cli([sub, "fmt", "-i", "tok.txt", "-I", "body.bin", "-c"], {"tok.txt": hx_(detc), "body.bin": hx_(raw)})
        cli([sub, "fmt", "-i", "-", "-I", "body.bin"], {"body.bin": hx_(raw)}, hx_(detc))
        cli([sub, "fmt"]); cli([sub, "fmt", "-i", "nofile"]); cli([sub, "fmt", "-i", "5"]); cli([sub, "fmt", "-i", js_(t0), "-I", "missing.bin"])
    return rows


class TranslatorCrash(Exception):
    """the built code did not survive an operation of a regenerated grid"""
    def __init__(self, grid, op, args, done, total, rc):
        Exception.__init__(self, "grid %s: %d answers for %d operations (exit status %s) — died on %s %s" % (grid, done, total, rc, op, json.dumps(args)[:300]))
        self.grid, self.op, self.args_, self.rc = grid, op, args, rc


def generate_grid(info, t):
    """{path: text} — one generated module per property: Jose/Grid/<pid>.lean"""
    g = grid_ops(t)
    out = {}
    for pid in sorted(g):
        L = ["/- GENERATED by tools/extract_tables.py: answers of /repo's current working tree (library objects just built,",
             "   driven in-process by the harness) to a fixed grid of pure operations for property %s.  Do not edit. -/" % pid,
             "import Jose.Driver.Pure", "namespace Jose", "namespace Grid", "namespace %s" % pid, "open Jose.Json Jose.Driver", "",
             "private abbrev N : Json := Json.null", "private abbrev B (b : Bool) : Json := Json.bool b", "private abbrev I (i : Int) : Json := Json.int i",
             "private abbrev S (s : String) : Json := Json.str s", "private abbrev A (l : List Json) : Json := Json.arr l",
             "private abbrev O (l : List (String × Json)) : Json := Json.obj l",
             "private abbrev R (op : String) (args result : Json) : GridRow := { op := op, args := args, result := result }", ""]
        lines = "\n".join("%s %s" % (o, json.dumps(a, ensure_ascii=True, separators=(",", ":"))) for o, a in g[pid]) + "\n"
        r = subprocess.run([info["hx"]], input=lines, stdout=subprocess.PIPE, text=True, env=dict(os.environ, ASAN_OPTIONS="detect_leaks=0"))
        res = r.stdout.splitlines()
        if len(res) != len(g[pid]):
            # the library (or the harness) died on operation number len(res) of this grid: a concrete input
            o_, a_ = g[pid][len(res)]
            raise TranslatorCrash(pid, o_, a_, len(res), len(g[pid]), r.returncode)
        keep = []
        for (o, a), x in zip(g[pid], res):
            rj = json.loads(x)
            if pid == "C19":
                letters = [t for t in a["argv"][1:] if len(t) == 2 and t[0] == "-" and not t[1].isdigit()]
                st = rj.get("status")
                if "crash" in rj or (st and 0 < st <= len(letters) and letters[st - 1] in ("-o", "-f")):
                    continue        # a failing output option has already written part of a circular value
            if pid == "C18" and rj.get("status") != 0:
                # a failing run has usually written part of its output before it knew: only the status is compared
                o, rj = "cli.status", {"status": rj.get("status")}
            keep.append(((o, a), rj))
        rows = ["  R %s %s %s" % (lean_str(o), ljs(a), ljs(rj)) for (o, a), rj in keep]
        CH = 50
        names = []
        for c in range(0, len(rows), CH):
            nm = "rows_%d" % (c // CH)
            names.append(nm)
            L.append("def %s : List GridRow := [" % nm)
            L.append(",\n".join(rows[c:c + CH]))
            L.append("]")
        L.append("/-- the grid in chunks (%d rows) -/" % len(rows))
        L.append("def chunks : List (List GridRow) := [%s]" % ", ".join(names))
        L.append("def size : Nat := %d" % len(rows))
        L += ["", "end %s" % pid, "end Grid", "end Jose"]
        out[os.path.join(VERIF, "lean", "Jose", "Grid", pid + ".lean")] = "\n".join(L) + "\n"
    return out


def sug_keys():
    """fixed grid of probe keys for the suggestion hooks (sign.sug, wrap.alg, encr.sug, wrap.enc)"""
    import base64
    def k(n):
        return base64.urlsafe_b64encode(b"\x5a" * n).rstrip(b"=").decode()
    keys = []
    lens = [0, 1, 15, 16, 17, 23, 24, 25, 31, 32, 33, 47, 48, 49, 63, 64, 65, 80]
    for n in lens:
        keys.append({"kty": "oct", "k": k(n)})
    keys += [{"kty": "oct", "k": "AAAAA"}, {"kty": "oct", "k": 5}, {"kty": "oct"}, {"k": k(32)}, {"kty": 7, "k": k(32)}]
    for crv in ("P-256", "P-384", "P-521", "secp256k1", "P-999", "", None, 5):
        e = {"kty": "EC"}
        if crv is not None:
            e["crv"] = crv
        keys.append(e)
    keys.append({"kty": "oct", "crv": "P-256", "k": k(16)})
    for n in (0, 1, 255, 256, 257, 383, 384, 385, 511, 512, 513, 959, 960, 1919, 1920, 2048):
        keys.append({"kty": "RSA", "n": k(n)})
    keys += [{"kty": "RSA"}, {"kty": "RSA", "n": 5}, {"kty": "RSA", "n": "AAAAA"}, {"kty": "OKP", "crv": "Ed25519"}, {}, {"kty": None}]
    names = ["HS256", "HS512", "ES256", "ES256K", "RS256", "PS384", "A128KW", "A256KW", "A192GCMKW", "ECDH-ES", "ECDH-ES+A192KW",
             "RSA1_5", "RSA-OAEP", "RSA-OAEP-256", "PBES2-HS256+A128KW", "PBES2-HS512+A256KW", "dir", "A128GCM", "A256GCM",
             "A128CBC-HS256", "A256CBC-HS512", "DEF", "S256", "ECDH", "ECMR", "none", "", "hs256"]
    for a in names:
        keys.append({"alg": a})
        keys.append({"alg": a, "kty": "oct", "k": k(16)})
        keys.append({"alg": a, "kty": "EC", "crv": "P-256"})
    keys += [{"alg": 5, "kty": "oct", "k": k(32)}, {"alg": None, "kty": "EC", "crv": "P-384"}, {"alg": "HS256", "kty": 5}]
    for n in (0, 1, 26, 27, 28, 29, 35, 36, 37, 38, 100):
        keys.append("p" * n)
    keys += [5, None, [], True]
    return keys


def lj(v):
    """a JSON value as a Lean `Json` term"""
    if v is None:
        return ".null"
    if v is True or v is False:
        return "(.bool %s)" % ("true" if v else "false")
    if isinstance(v, int):
        return "(.int %d)" % v if v >= 0 else "(.int (%d))" % v
    if isinstance(v, str):
        return "(.str %s)" % lstr(v)
    if isinstance(v, list):
        return "(.arr [" + ", ".join(lj(x) for x in v) + "])"
    if isinstance(v, dict):
        return "(.obj [" + ", ".join("(%s, %s)" % (lstr(k), lj(x)) for k, x in v.items()) + "])"
    raise SystemExit("translator-failed: cannot render %r" % (v,))


def generate_sug(t):
    L = ["/- GENERATED by tools/extract_tables.py: answers of the suggestion hooks of /repo's current working tree",
         "   (sign.sug, wrap.alg, encr.sug: first non-NULL in registry order; wrap.enc per algorithm) on a fixed grid",
         "   of probe keys.  Do not edit. -/", "import Jose.Json", "namespace Jose", "namespace SugTable", "open Jose.Json", "",
         "structure Row where", "  key : Json", "  sign : Option String", "  walg : Option String", "  encr : Option String",
         "  wenc : List (String × Option String)", "", "def rows : List Row := ["]
    rows = []
    for r in t["sug"]:
        wenc = "[" + ", ".join("(%s, %s)" % (lstr(n), opt(e)) for n, e in r["wenc"].items()) + "]"
        rows.append("  { key := %s, sign := %s, walg := %s, encr := %s, wenc := %s }" % (lj(r["key"]), opt(r["sign"]), opt(r["walg"]), opt(r["encr"]), wenc))
    L.append(",\n".join(rows))
    L += ["]", "", "end SugTable", "end Jose"]
    return "\n".join(L) + "\n"


def lstr(s):
    return json.dumps(s, ensure_ascii=True) if s is not None else None


def opt(s):
    return "none" if s is None else "(some %s)" % lstr(s)


def strl(l):
    return "[" + ", ".join(lstr(x) for x in l) + "]"


def p2c_defines():
    src = os.path.join(build_repo.REPO, "lib", "openssl", "pbes2.c")
    r = subprocess.run(["cc", "-E", "-dM", "-I" + os.path.join(build_repo.REPO, "include"),
                        "-I" + os.path.join(build_repo.REPO, "lib"), src],
                       stdout=subprocess.PIPE, stderr=subprocess.DEVNULL, text=True)
    d = {}
    for m in re.finditer(r"#define (P2C_M(?:IN|AX)_ITERATIONS) (\S+)", r.stdout):
        try:
            d[m.group(1)] = int(m.group(2), 0)
        except ValueError:
            pass
    if "P2C_MIN_ITERATIONS" not in d or "P2C_MAX_ITERATIONS" not in d:
        raise SystemExit("translator-failed: P2C_*_ITERATIONS not found in pbes2.c")
    return d["P2C_MIN_ITERATIONS"], d["P2C_MAX_ITERATIONS"]


def mutable_globals(info):
    """(source file, symbol) of every data/bss/common symbol of the library objects; sanitizer bookkeeping
    symbols and compiler-numbered suffixes of function-local statics are normalised away"""
    out = []
    for o, src in zip(info["objs"], info["lib_sources"]):
        r = subprocess.run(["nm", o], stdout=subprocess.PIPE, text=True)
        for ln in r.stdout.splitlines():
            f = ln.split()
            if len(f) == 3 and f[1] in "bBdDcCsSgG":
                n = f[2]
                if n.startswith(("__asan", "__odr_asan", "__ubsan", "__sancov", "__tsan", ".L")):
                    continue
                out.append((src, re.sub(r"\.\d+$", "", n)))
    return sorted(set(out))


def generate(info):
    r = subprocess.run([info["hx"]], input="tables " + json.dumps({"sug_keys": sug_keys()}) + "\n", stdout=subprocess.PIPE, text=True,
                       env=dict(os.environ, ASAN_OPTIONS="detect_leaks=0"))
    t = json.loads(r.stdout.splitlines()[0])
    p2cmin, p2cmax = p2c_defines()
    L = []
    a = L.append
    a("/- GENERATED by tools/extract_tables.py from /repo's current working tree. Do not edit. -/")
    a("namespace Jose")
    a("namespace Tables")
    a("")
    a("inductive AlgKind where")
    a("  | hash | sign | wrap | encr | comp | exch | none")
    a("  deriving DecidableEq, Repr, Inhabited")
    a("")
    a("/-- one row of the algorithm registry, in `jose_hook_alg_list()` order.")
    a("    `p1`/`p2`: sign = sprm/vprm, wrap/encr = eprm/dprm, exch = prm -/")
    a("structure AlgRec where")
    a("  name : String")
    a("  kind : AlgKind")
    a("  size : Nat := 0")
    a("  p1 : Option String := none")
    a("  p2 : Option String := none")
    a("  deriving DecidableEq, Repr, Inhabited")
    a("")
    a("structure KtyRec where")
    a("  kty : String")
    a("  req : List String")
    a("  pub : List String")
    a("  prv : List String")
    a("  deriving DecidableEq, Repr, Inhabited")
    a("")
    a("structure OperRec where")
    a("  pub : Option String")
    a("  prv : Option String")
    a("  use : Option String")
    a("  deriving DecidableEq, Repr, Inhabited")
    a("")
    a("/-- JOSE_B64_MAP as character codes -/")
    a("def b64Map : List Nat := [" + ", ".join(str(ord(c)) for c in t["b64map"]) + "]")
    a("def keymax : Nat := %d" % t["keymax"])
    a("def maxCompressed : Nat := %d" % t["max_compressed"])
    a("/-- staging-buffer sizes of the streaming base64 codecs (sizeof db / sizeof eb in lib/b64.c) -/")
    a("def b64EncBlk : Nat := %d" % t["b64_enc_blk"])
    a("def b64DecBlk : Nat := %d" % t["b64_dec_blk"])
    a("def p2cMin : Int := %d" % p2cmin)
    a("def p2cMax : Int := %d" % p2cmax)
    a("/-- _JOSE_CFG_ERR_BASE and the names the default error handler prints for the codes above it -/")
    a("def cfgErrBase : Nat := %d" % t["cfg_err_base"])
    a("def cfgErrNames : List (Nat × String) := [" + ", ".join("(%d, %s)" % (c, lstr(n)) for c, n in t["cfg_err_names"]) + "]")
    a("/-- every object with static storage in a writable section of the library's object files (nm) -/")
    a("def mutableGlobals : List (String × String) := [")
    a(",\n".join("  (%s, %s)" % (lstr(f), lstr(n)) for f, n in mutable_globals(info)))
    a("]")
    a("")
    a("def algs : List AlgRec := [")
    rows = []
    for r_ in t["algs"]:
        f = ["name := %s" % lstr(r_["name"]), "kind := .%s" % r_["kind"]]
        if "size" in r_:
            f.append("size := %d" % r_["size"])
        if r_.get("p1") is not None:
            f.append("p1 := some %s" % lstr(r_["p1"]))
        if r_.get("p2") is not None:
            f.append("p2 := some %s" % lstr(r_["p2"]))
        rows.append("  { " + ", ".join(f) + " }")
    a(",\n".join(rows))
    a("]")
    a("")
    a("/-- what the PREP hook of an algorithm implies for a key template -/")
    a("structure PrepRec where")
    a("  alg : String")
    a("  kty : String")
    a("  crv : Option String := none")
    a("  bytes : Option Nat := none")
    a("  crvStrict : Bool := false")
    a("  deriving DecidableEq, Repr, Inhabited")
    a("")
    a("def prepTable : List PrepRec := [")
    rows = []
    for r_ in t["prep"]:
        f = ["alg := %s" % lstr(r_["alg"]), "kty := %s" % lstr(r_["kty"])]
        if r_.get("crv") is not None:
            f.append("crv := some %s" % lstr(r_["crv"]))
        if r_.get("bytes") is not None:
            f.append("bytes := some %d" % r_["bytes"])
        if r_.get("crv_strict"):
            f.append("crvStrict := true")
        rows.append("  { " + ", ".join(f) + " }")
    a(",\n".join(rows))
    a("]")
    a("")
    a("def ktys : List KtyRec := [")
    a(",\n".join("  { kty := %s, req := %s, pub := %s, prv := %s }" %
                 (lstr(k["kty"]), strl(k["req"]), strl(k["pub"]), strl(k["prv"])) for k in t["ktys"]))
    a("]")
    a("")
    a("def opers : List OperRec := [")
    a(",\n".join("  { pub := %s, prv := %s, use := %s }" % (opt(o["pub"]), opt(o["prv"]), opt(o["use"]))
                 for o in t["opers"]))
    a("]")
    a("")
    a("end Tables")
    a("end Jose")
    return "\n".join(L) + "\n", t


def main():
    info = build_repo.build("asan")
    txt, t = generate(info)
    changed = False
    os.makedirs(os.path.join(VERIF, "lean", "Jose", "Grid"), exist_ok=True)
    for path, text in [(OUT, txt), (OUT_SUG, generate_sug(t))] + sorted(generate_grid(info, t).items()):
        old = open(path).read() if os.path.exists(path) else None
        if old != text:
            with open(path + ".tmp", "w") as f:
                f.write(text)
            os.replace(path + ".tmp", path)
            changed = True
    print("Tables.lean regenerated (%s)" % ("changed" if changed else "unchanged"))
    return t


if __name__ == "__main__":
    main()
