"""Shared JWE material: (wrap, enc, key) combinations, masks for randomized members."""
import base64, copy, json
import keys as K
from jwsgen import b64u, b64d, enc as encj

ENCS = ["A128GCM", "A192GCM", "A256GCM", "A128CBC-HS256", "A192CBC-HS384", "A256CBC-HS512"]
CEKLEN = {"A128GCM": 16, "A192GCM": 24, "A256GCM": 32, "A128CBC-HS256": 32, "A192CBC-HS384": 48, "A256CBC-HS512": 64}
KW = {"A128KW": 16, "A192KW": 24, "A256KW": 32, "A128GCMKW": 16, "A192GCMKW": 24, "A256GCMKW": 32}
ECDH = ["ECDH-ES", "ECDH-ES+A128KW", "ECDH-ES+A192KW", "ECDH-ES+A256KW"]
RSA = ["RSA1_5", "RSA-OAEP", "RSA-OAEP-224", "RSA-OAEP-256", "RSA-OAEP-384", "RSA-OAEP-512"]
PBES2 = ["PBES2-HS256+A128KW", "PBES2-HS384+A192KW", "PBES2-HS512+A256KW"]
WRAPS = ["dir"] + list(KW) + ECDH + RSA + PBES2
RANDOMIZED = set(ECDH) | set(RSA)          # members that cannot be predicted bit for bit
OCT_BY_LEN = {16: "oct-16", 24: "oct-24", 32: "oct-32", 48: "oct-48", 64: "oct-64"}


def key_for(pool, wrap, enc, rng):
    if wrap == "dir":
        return dict(pool[OCT_BY_LEN[CEKLEN[enc]]], alg=enc)
    if wrap in KW:
        return pool[OCT_BY_LEN[KW[wrap]]]
    if wrap in ECDH:
        return pool[rng.choice(["EC-P256", "EC-P384", "EC-P521"])]
    if wrap in RSA:
        return pool[rng.choice(["RSA-2048", "RSA-2048-b"])]
    if wrap in PBES2:
        return rng.choice(["password", "a much longer password, beyond thirty-six bytes", pool["oct-24"]])
    raise KeyError(wrap)


def usable_for_dec(key):
    return key


def mask(tok, wrap, zip_):
    """replace members that depend on OpenSSL-internal randomness (or on zlib's choices) by placeholders"""
    t = copy.deepcopy(tok)
    if not isinstance(t, dict):
        return t
    def mrcp(r):
        if not isinstance(r, dict):
            return
        if wrap in RANDOMIZED and "encrypted_key" in r and r["encrypted_key"] != "":
            r["encrypted_key"] = "<ek>"
        h = r.get("header")
        if isinstance(h, dict) and isinstance(h.get("epk"), dict):
            for m in ("x", "y"):
                if m in h["epk"]:
                    h["epk"][m] = "<epk>"
    mrcp(t)
    for r in t.get("recipients", []) if isinstance(t.get("recipients"), list) else []:
        mrcp(r)
    if wrap == "ECDH-ES" or zip_ or wrap in RANDOMIZED and False:
        for m in ("ciphertext", "tag"):
            if m in t:
                t[m] = "<%s>" % m
    return t
