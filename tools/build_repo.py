#!/usr/bin/env python3
"""Build /repo's *current working tree* (library objects, CLI, harness) into a
scratch directory outside /repo, /verif and /tmp.

The build is keyed by a hash of the contents of every source file that goes into
it (repo sources + harness sources + flags), so that the twenty checks of one
sweep share one build while any edit to /repo forces a rebuild.  Object files are
compiled and linked in the order lib/meson.build lists them: constructor (hence
algorithm-registry) order is link order.
"""
import hashlib, os, re, subprocess, sys, fcntl, shutil, time, json
from concurrent.futures import ThreadPoolExecutor

REPO = os.environ.get("VERIF_REPO", "/repo")
VERIF = os.path.dirname(os.path.dirname(os.path.abspath(__file__)))
CACHE = os.environ.get("VERIF_CACHE", "/var/tmp/jose-verif-cache")
GUARD = "LATCHSET_JOSE_VERIF"

KINDS = {
    # name: (cflags, ldflags)
    "asan": (["-O1", "-g", "-fsanitize=address,undefined", "-fno-sanitize-recover=undefined",
              "-fno-omit-frame-pointer"], ["-fsanitize=address,undefined"]),
    "plain": (["-O2", "-g"], []),
    "tsan": (["-O1", "-g", "-fsanitize=thread", "-fno-omit-frame-pointer"], ["-fsanitize=thread"]),
    # allocation-fault build: libjose's own malloc family is redirected
    "alloc": (["-O1", "-g", "-fsanitize=address,undefined", "-fno-sanitize-recover=undefined",
               "-fno-omit-frame-pointer",
               "-Dmalloc=verif_malloc", "-Dcalloc=verif_calloc", "-Drealloc=verif_realloc",
               "-Dstrdup=verif_strdup", "-include", os.path.join(VERIF, "harness", "verif_alloc.h")],
              ["-fsanitize=address,undefined"]),
}

BASE_CFLAGS = ["-std=gnu99", "-D_FILE_OFFSET_BITS=64", "-fPIC", "-pthread", "-w", "-D" + GUARD]


def meson_sources(path, start_pat):
    """Source list, in order, from a meson.build target."""
    txt = open(path).read()
    m = re.search(start_pat + r"(.*?)\n\s*(include_directories|dependencies)\s*:", txt, re.S)
    if not m:
        raise SystemExit("translator-failed: cannot find source list in " + path)
    return [s for s in re.findall(r"'([^']+\.c)'", m.group(1))]


def lib_sources():
    return meson_sources(os.path.join(REPO, "lib", "meson.build"), r"shared_library\('jose',")


def cmd_sources():
    return meson_sources(os.path.join(REPO, "cmd", "meson.build"), r"executable\(meson.project_name\(\),")


def tree_files():
    out = []
    for top in ("lib", "cmd", "include"):
        for d, _, fs in os.walk(os.path.join(REPO, top)):
            for f in fs:
                if f.endswith((".c", ".h", ".in", ".build", ".map")):
                    out.append(os.path.join(d, f))
    out.append(os.path.join(REPO, "meson.build"))
    return sorted(out)


def tree_hash(extra=()):
    h = hashlib.sha256()
    for p in tree_files() + sorted(extra):
        h.update(p.encode() + b"\0")
        with open(p, "rb") as f:
            h.update(hashlib.sha256(f.read()).digest())
    return h.hexdigest()[:20]


def run(cmd, **kw):
    r = subprocess.run(cmd, stdout=subprocess.PIPE, stderr=subprocess.STDOUT, text=True, **kw)
    if r.returncode != 0:
        sys.stderr.write("BUILD FAILED: %s\n%s\n" % (" ".join(cmd), r.stdout))
        raise SystemExit(2)
    return r.stdout


def version():
    m = re.search(r"version:\s*'([^']+)'", open(os.path.join(REPO, "meson.build")).read())
    return m.group(1) if m else "0"


HARNESS = ("hx.c", "hx_b64.c", "hx_tables.c", "hx_io.c", "hx_jwk.c", "hx_misc.c", "hx_jws.c", "hx_jwe.c", "hx_api.c", "hx_cfg.c", "hx_glob.c")


def build(kind="asan", harness=HARNESS, verbose=False):
    """Returns dict(dir=..., objs=[...], jose=path, hx=path)."""
    cflags, ldflags = KINDS[kind]
    if kind == "alloc":
        harness = tuple(harness) + ("hx_alloc.c",)
    hsrcs = [os.path.join(VERIF, "harness", h) for h in harness]
    hdeps = [os.path.join(VERIF, "harness", f) for f in sorted(os.listdir(os.path.join(VERIF, "harness")))
             if f.endswith((".c", ".h"))]
    key = tree_hash(hdeps) + "-" + kind
    os.makedirs(CACHE, exist_ok=True)
    out = os.path.join(CACHE, key)
    lock = open(os.path.join(CACHE, key + ".lock"), "w")
    fcntl.flock(lock, fcntl.LOCK_EX)
    try:
        info_p = os.path.join(out, "info.json")
        if os.path.exists(info_p):
            os.utime(out)
            return json.load(open(info_p))
        t0 = time.time()
        shutil.rmtree(out, ignore_errors=True)
        os.makedirs(os.path.join(out, "obj"))
        os.makedirs(os.path.join(out, "inc", "jose"))
        with open(os.path.join(REPO, "include", "jose", "jose.h.in")) as f:
            open(os.path.join(out, "inc", "jose", "jose.h"), "w").write(f.read().replace("@VERSION@", version()))
        inc = ["-I" + os.path.join(out, "inc"), "-I" + os.path.join(REPO, "include"),
               "-I" + os.path.join(REPO, "lib"), "-I" + os.path.join(REPO, "cmd")]
        libs = lib_sources()
        cmds = cmd_sources()
        jobs = []
        lobjs, cobjs = [], []
        for s in libs:
            o = os.path.join(out, "obj", "lib_" + s.replace("/", "_") + ".o")
            lobjs.append(o)
            jobs.append(["cc"] + BASE_CFLAGS + cflags + inc + ["-c", os.path.join(REPO, "lib", s), "-o", o])
        # the CLI is never built with the allocator redirection
        ccf = KINDS["asan"][0] if kind == "alloc" else cflags
        for s in cmds:
            o = os.path.join(out, "obj", "cmd_" + s.replace("/", "_") + ".o")
            cobjs.append(o)
            jobs.append(["cc"] + BASE_CFLAGS + ccf + inc + ["-c", os.path.join(REPO, "cmd", s), "-o", o])
        # the CLI's objects once more for the harness, with main() renamed, so that the harness can run
        # subcommands in a forked child without exec (fast, and still the working tree's code)
        hcobjs = []
        for s in cmds:
            o = os.path.join(out, "obj", "hcmd_" + s.replace("/", "_") + ".o")
            hcobjs.append(o)
            jobs.append(["cc"] + BASE_CFLAGS + ccf + inc + ["-Dmain=jose_cli_main", "-c", os.path.join(REPO, "cmd", s), "-o", o])
        hobjs = []
        for s in hsrcs:
            o = os.path.join(out, "obj", "h_" + os.path.basename(s) + ".o")
            hobjs.append(o)
            hc = KINDS["asan"][0] if kind == "alloc" else cflags
            jobs.append(["cc", "-std=gnu11", "-D_GNU_SOURCE", "-pthread", "-Wall", "-Wno-unused-function",
                         "-D" + GUARD] + (["-DHX_ALLOC"] if kind == "alloc" else []) + hc + inc +
                        ["-I" + os.path.join(VERIF, "harness"), "-c", s, "-o", o])
        with ThreadPoolExecutor(16) as ex:
            list(ex.map(run, jobs))
        dl = ["-ljansson", "-lcrypto", "-lz", "-lpthread", "-ldl", "-lm"]
        jose = os.path.join(out, "jose")
        if kind != "alloc":     # the redirected library objects only link together with the harness allocator
            run(["cc"] + ldflags + cobjs + lobjs + dl + ["-o", jose])
        hx = os.path.join(out, "hx")
        run(["cc"] + ldflags + ["-rdynamic", "-Wl,-Map=" + hx + ".map"] + hobjs + hcobjs + lobjs + dl + ["-o", hx])
        info = dict(dir=out, objs=lobjs, jose=jose, hx=hx, kind=kind, key=key,
                    build_s=round(time.time() - t0, 2), lib_sources=libs)
        json.dump(info, open(info_p, "w"))
        prune(keep=6)
        return info
    finally:
        fcntl.flock(lock, fcntl.LOCK_UN)
        lock.close()


def prune(keep=6):
    ds = [os.path.join(CACHE, d) for d in os.listdir(CACHE) if os.path.isdir(os.path.join(CACHE, d))]
    ds.sort(key=lambda d: os.path.getmtime(d), reverse=True)
    for d in ds[keep:]:
        shutil.rmtree(d, ignore_errors=True)
        try:
            os.unlink(d + ".lock")
        except OSError:
            pass


if __name__ == "__main__":
    k = sys.argv[1] if len(sys.argv) > 1 else "asan"
    print(json.dumps(build(k), indent=1))
