"""The manual of `jose fmt` (doc/man/jose-fmt.1.adoc) as an executable specification, written
independently of cmd/fmt.c and of the Lean model.  Python lists/dicts have identity and are
mutable, exactly the sharing jansson values have, so the manual's own examples (which rely on
aliases: `-j {} -cs unprotected -q A128KW -s alg -UUo-`) work as printed."""
import base64, copy, json

ASSERT = "OASIRNTFB0E"


class Fail(Exception):
    pass


def dump(v):
    try:
        return json.dumps(v, sort_keys=True, separators=(",", ":"), ensure_ascii=False)
    except (ValueError, RecursionError):
        raise Fail()


def deep(v):
    try:
        json.dumps(v)           # circular values cannot be copied
    except (ValueError, RecursionError):
        raise Fail()
    return copy.deepcopy(v)


def is_int(v):
    return isinstance(v, int) and not isinstance(v, bool)


def index(arr, s):
    """# or -# (from the end)"""
    t = s.strip()
    sign = 1
    if t[:1] and t[:1] in "+-":
        sign = -1 if t[0] == "-" else 1
        t = t[1:]
    digits = ""
    for ch in t:
        if ch.isdigit():
            digits += ch
        else:
            break
    if not digits:
        raise Fail()
    i = sign * int(digits)
    if i < 0:
        i += len(arr)
    if i < 0:
        raise Fail()
    return i


def b64d(s):
    if not isinstance(s, str):
        raise Fail()
    try:
        raw = base64.urlsafe_b64decode(s + "=" * (-len(s) % 4))
    except Exception:
        raise Fail()
    if base64.urlsafe_b64encode(raw).rstrip(b"=").decode() != s or len(s) % 4 == 1:
        raise Fail()
    return raw


def run(opts):
    """opts: list of (letter, param). Returns dict(status, stdout, files, unspecified)."""
    stack = []            # TOP first
    stdout = ""
    files = {}
    pending_not = False
    unspecified = False

    def top():
        if not stack:
            raise Fail()
        return stack[0]

    def prev():
        if len(stack) < 2:
            raise Fail()
        return stack[1]

    def write(f, text):
        nonlocal stdout
        if f == "-":
            stdout += text
        else:
            files[f] = text

    for n, (o, p) in enumerate(opts, start=1):
        try:
            if pending_not and o not in ASSERT:
                # "-X: invert the following assertion": anything else after it is an error; which
                # option is blamed is not specified
                unspecified = True
                raise Fail()
            if o == "X":
                pending_not = True
                continue
            if o in ASSERT:
                t = stack[0] if stack else None
                has = bool(stack)
                r = {"O": lambda: has and isinstance(t, dict), "A": lambda: has and isinstance(t, list), "S": lambda: has and isinstance(t, str),
                     "I": lambda: has and is_int(t), "R": lambda: has and isinstance(t, float), "N": lambda: has and (is_int(t) or isinstance(t, float)),
                     "T": lambda: has and t is True, "F": lambda: has and t is False, "B": lambda: has and isinstance(t, bool),
                     "0": lambda: has and t is None, "E": lambda: len(stack) >= 2 and dump_eq(stack[0], stack[1])}[o]()
                if r == pending_not:
                    raise Fail()
                pending_not = False
                continue
            if o == "Q":
                stack.insert(0, deep(list(stack)))
            elif o == "M":
                k = p
                t = top()
                if k < 0 or k + 1 > len(stack):
                    raise Fail()
                stack.insert(k + 1, t)
                stack.pop(0)
            elif o == "U":
                top()
                stack.pop(0)
            elif o == "j":
                stack.insert(0, copy.deepcopy(p))
            elif o == "c":
                stack.insert(0, deep(top()))
            elif o == "q":
                stack.insert(0, p)
            elif o == "o":
                if not stack and p != "-":
                    files[p] = ""          # the file has been opened for writing already
                write(p, dump(top()))
            elif o == "f":
                t = top()
                if isinstance(t, list):
                    if p != "-":
                        files[p] = ""
                    write(p, "".join(dump(v) + "\n" for v in t))
                elif isinstance(t, dict):
                    if p != "-":
                        files[p] = ""
                    write(p, "".join("%s=%s\n" % (k, dump(v)) for k, v in t.items()))
                else:
                    raise Fail()
            elif o == "u":
                t = top()
                if not isinstance(t, str):
                    raise Fail()
                write(p, t + "\n")
            elif o == "t":
                t = top()
                if not isinstance(t, list):
                    raise Fail()
                if p >= 0:
                    del t[p:]
                elif len(t) + p < 0:
                    unspecified = True      # discarding more items than there are: not specified
                    raise Fail()
                else:
                    del t[len(t) + p:]
            elif o == "i":
                t, pv = top(), prev()
                if not isinstance(pv, list) or p < 0 or p > len(pv) or t is pv:
                    raise Fail()
                pv.insert(p, t)
            elif o == "a":
                t, pv = top(), prev()
                if isinstance(pv, list):
                    if t is pv:
                        raise Fail()
                    pv.append(t)
                elif isinstance(pv, dict) and isinstance(t, dict):
                    for k, v in list(t.items()):
                        pv.setdefault(k, v)
                else:
                    raise Fail()
            elif o == "x":
                t, pv = top(), prev()
                if isinstance(pv, list) and isinstance(t, list):
                    pv.extend(list(t))
                elif isinstance(pv, dict) and isinstance(t, dict):
                    pv.update(t)
                else:
                    raise Fail()
            elif o == "d":
                t = top()
                if isinstance(t, list):
                    i = index(t, p)
                    if i >= len(t):
                        raise Fail()
                    del t[i]
                elif isinstance(t, dict):
                    if p not in t:
                        raise Fail()
                    del t[p]
                else:
                    raise Fail()
            elif o == "l":
                t = top()
                if isinstance(t, (list, dict)):
                    stack.insert(0, len(t))
                elif isinstance(t, str):
                    stack.insert(0, len(t.encode()))
                else:
                    raise Fail()
            elif o == "e":
                t = top()
                if isinstance(t, (list, dict)):
                    t.clear()
                else:
                    raise Fail()
            elif o == "g":
                t = top()
                if isinstance(t, list):
                    i = index(t, p)
                    if i >= len(t):
                        raise Fail()
                    stack.insert(0, t[i])
                elif isinstance(t, dict):
                    if p not in t:
                        raise Fail()
                    stack.insert(0, t[p])
                else:
                    raise Fail()
            elif o == "s":
                t, pv = top(), prev()
                if t is pv:
                    raise Fail()
                if isinstance(pv, list):
                    i = index(pv, p)
                    if i >= len(pv):
                        raise Fail()
                    pv[i] = t
                elif isinstance(pv, dict):
                    pv[p] = t
                else:
                    raise Fail()
            elif o == "Y":
                t = top()
                if not isinstance(t, (list, dict)):
                    raise Fail()
                stack.insert(0, base64.urlsafe_b64encode(dump(t).encode()).rstrip(b"=").decode())
            elif o == "y":
                raw = b64d(top())
                try:
                    stack.insert(0, json.loads(raw.decode("utf-8")))
                except Exception:
                    unspecified = True     # the JSON dialect accepted is the JSON layer's business
                    raise Fail()
            else:
                raise Fail()
        except Fail:
            return dict(status=n % 256, stdout=stdout, files=files, unspecified=unspecified)
    if pending_not:
        return dict(status=len(opts) % 256, stdout=stdout, files=files, unspecified=True)
    return dict(status=0, stdout=stdout, files=files, unspecified=unspecified, depth=len(stack))


def dump_eq(a, b):
    try:
        return json.dumps(a, sort_keys=True) == json.dumps(b, sort_keys=True) and type(a) == type(b)
    except (ValueError, RecursionError):
        raise Fail()
