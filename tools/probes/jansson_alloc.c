#include <jansson.h>
#include <stdio.h>
#include <stdlib.h>
#include <string.h>
static long cnt, failat;
static void *m(size_t n){ cnt++; if (cnt==failat) return NULL; return malloc(n);} 
static void f(void *p){ free(p);} 
int main(void){
  json_set_alloc_funcs(m,f);
  failat=0;
  json_t *o=json_pack("{s:s,s:s,s:{s:i,s:[i,i]},s:s}","kty","EC","crv","P-256","n","a",1,"b",2,3,"x","AAAA");
  json_t *h=json_pack("{s:s,s:i}","kid","k","z",5);
  char *ref=json_dumps(o,JSON_SORT_KEYS|JSON_COMPACT);
  printf("ref %s\n",ref);
  for (int k=1;k<40;k++){ cnt=0; failat=k; char *s=json_dumps(o,JSON_SORT_KEYS|JSON_COMPACT); long c=cnt; failat=0; if (c<k) break; if (s && strcmp(s,ref)) printf("dumps k=%d WRONG %s\n",k,s); free(s);} 
  for (int k=1;k<60;k++){ cnt=0; failat=k; json_t *c=json_deep_copy(o); long cc=cnt; failat=0; if (cc<k) break; if (c && !json_equal(c,o)) {char *s=json_dumps(c,JSON_COMPACT); printf("deep_copy k=%d PARTIAL %s\n",k,s); free(s);} json_decref(c);} 
  for (int k=1;k<60;k++){ json_t *p=json_pack("{s:s}","alg","HS256"); cnt=0; failat=k; int r=json_object_update_missing(p,h); long cc=cnt; failat=0; if (cc<k) {json_decref(p);break;} if (r==0 && json_object_size(p)!=3) {char *s=json_dumps(p,JSON_COMPACT); printf("update_missing k=%d ret0 PARTIAL %s\n",k,s); free(s);} json_decref(p);} 
  for (int k=1;k<60;k++){ json_t *p=json_object(); cnt=0; failat=k; int r=json_object_update(p,o); long cc=cnt; failat=0; if (cc<k) {json_decref(p);break;} if (r==0 && !json_equal(p,o)) {printf("update k=%d ret0 PARTIAL\n",k);} json_decref(p);} 
  for (int k=1;k<60;k++){ cnt=0; failat=k; json_t *p=json_loads(ref,0,NULL); long cc=cnt; failat=0; if (cc<k) {json_decref(p);break;} if (p && !json_equal(p,o)) {printf("loads k=%d PARTIAL\n",k);} json_decref(p);} 
  for (int k=1;k<60;k++){ cnt=0; failat=k; json_t *p=json_pack("{s:s,s:O,s:[ss]}","kty","oct","enc",h,"ops","a","b"); long cc=cnt; failat=0; if (cc<k) {json_decref(p);break;} if (p && json_object_size(p)!=3) {printf("pack k=%d PARTIAL\n",k);} json_decref(p);} 
  printf("jansson %s\n", JANSSON_VERSION);
  return 0;
}
