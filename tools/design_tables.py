#!/usr/bin/env python3
"""Regenerates the generated tables of DESIGN.md (between <!-- X-BEGIN --> / <!-- X-END --> markers):
the seeded-change catch matrix (from seeded/*/meta.json) and the findings table (from known_findings.json)."""
import glob, json, os, re
VERIF = os.path.dirname(os.path.dirname(os.path.abspath(__file__)))


def seeded():
    rows = ["| change | property | file(s) | what it needs to manifest | first run | now caught by (site of the replay) |", "|---|---|---|---|---|---|"]
    for d in sorted(glob.glob(os.path.join(VERIF, "seeded", "*", "meta.json"))):
        m = json.load(open(d))
        name = os.path.basename(os.path.dirname(d))
        ch = m.get("checks", {})
        caught = ["%s (%s)" % (c, v.get("replay_site") or "obligation/correspondence") for c, v in sorted(ch.items()) if isinstance(v, dict) and v.get("caught")]
        missed = [c for c, v in sorted(ch.items()) if isinstance(v, dict) and not v.get("caught")]
        trig = (m.get("trigger") or "").replace("\n", " ").replace("|", "/")
        trig = trig if len(trig) < 230 else trig[:227] + "..."
        res = ", ".join(caught) if caught else "**missed**"
        if m.get("superseded"):
            res = "superseded (the fix of a defect it led to changed the code it edits; see DESIGN A.4c)"
        if missed and caught:
            res += "; not by " + ", ".join(missed)
        fp = m.get("first_pass")
        first = "—" if not fp else ("caught" if any(v.get("caught") for v in fp.values()) else "**missed**")
        rows.append("| %s | %s | %s | %s | %s | %s |" % (name, m.get("property"), ", ".join(m.get("files", [])), trig, first, res))
    return "\n".join(rows)


def findings():
    d = json.load(open(os.path.join(VERIF, "known_findings.json")))
    rows = ["| property (also) | site | status | what failed |", "|---|---|---|---|"]
    for f in d["findings"]:
        what = f.get("line") or f.get("what") or ""
        what = re.sub(r"^fixed: property=\S+ \S+ ", "", what).replace("|", "/")
        st = "fixed in `%s`" % f["commit"] if f["status"] == "fixed" else "**open (known finding)**"
        rows.append("| %s%s | `%s` | %s | %s |" % (f["property"], (" (" + ", ".join(f["also"]) + ")") if f.get("also") else "", f["site"], st, what))
    return "\n".join(rows)


def main():
    p = os.path.join(VERIF, "DESIGN.md")
    s = open(p).read()
    for tag, fn in (("SEEDED-MATRIX", seeded), ("FINDINGS", findings)):
        b, e = "<!-- %s-BEGIN -->" % tag, "<!-- %s-END -->" % tag
        if b in s and e in s:
            s = s[:s.index(b) + len(b)] + "\n" + fn() + "\n" + s[s.index(e):]
    open(p, "w").write(s)


if __name__ == "__main__":
    main()
