#!/usr/bin/env python3
"""Regenerates MANIFEST.json from the table below (single source of truth for the interface)."""
import json, os
VERIF = os.path.dirname(os.path.dirname(os.path.abspath(__file__)))

CLAIMS = {
 "C08": dict(
  text="Machine-checked proof (Lean 4 kernel, leanchecker, axiom audit) on a line-by-line model of lib/b64.c: "
       "decode∘encode = id for every byte string, the decoder accepts exactly the canonical encodings (enc∘dec = id "
       "on accepted text), exact characterisation of rejection, size query = bytes written, no write beyond ol and no "
       "read beyond il for every input. Unconditional, unbounded. The model is tied to the code on every run by a "
       "regenerated alphabet table (theorems re-checked against it) and an exhaustive/randomised differential run "
       "(≈0.8M operations quick) of the real functions under ASan/UBSan with canaries, plus a direct RFC 4648 oracle. Streaming forms against buffer forms: input lengths 0..40 and block boundaries, every sink capacity 0..required+1, several chunkings; invalid text of every class through the streamed decoder. model_is_code_on_grid: the model's answers equal the answers of the library built from the working tree on a grid of about 936 operations regenerated on every run (Jose/Grid/C08.lean), proved by kernel evaluation.",
  note="Trusted: Lean kernel; axioms propext/Classical.choice/Quot.sound; the hand-written model Jose/B64.lean is "
       "tied to lib/b64.c only by the correspondence run (differential testing); jansson's parser/dumper are "
       "modelled (Jose/JsonParse.lean) and compared, not verified; streaming forms are covered under C07.",
  technique="Lean 4 theorem proving (structural induction, omega) + regenerated tables + differential correspondence + answers of the built code regenerated as a table and agreement proved by kernel evaluation",
  design="§6 C08"),
 "C07": dict(
  text="Machine-checked proof on the chain model Jose/IO.lean (mirror of lib/io.c, the streaming codecs of lib/b64.c with "
       "their 48/64-byte staging buffers, transformer stages, multiplexer): for every chunking (any number of feeds, "
       "empty and 1-byte feeds included) the streaming encoder delivers exactly the one-shot encoding and the "
       "streaming decoder has the one-shot decoder's verdict and bytes; a buffer sink never exceeds its capacity over "
       "any feed sequence; any/all multiplexer verdicts, empty multiplexer fails, dropped branches are never called "
       "again; a refusal by the sink under any stack of codec/transformer stages makes the run fail (feed or done). "
       "Chunking independence for arbitrary chain shapes and for the OpenSSL/zlib-backed stages is validated, not "
       "proved: exhaustive compositions of lengths <=8 (quick) over 14 chain shapes, random trees of depth 3, every "
       "probe failure position, against the real objects under ASan/UBSan and a denotational Python reference. The content-decryption stream (GCM and CBC-HMAC, with and without inflate) is a chain stage on both sides (jwedec): plaintext lengths around the block size incl. a pure-padding final block, in front of buffering stages, bounded sinks, multiplexers and failing sinks. model_is_code_on_grid: the model's answers equal the answers of the library built from the working tree on a grid of about 850 operations regenerated on every run (Jose/Grid/C07.lean), proved by kernel evaluation.",
  note="Trusted: Lean kernel, standard axioms; model tied to code by differential testing only; transformer stages "
       "(hash/inflate/deflate/cipher) are modelled at verdict level (what they emit in total), their stream laws are "
       "validated on OpenSSL/zlib, not proved; general-shape chunking theorem not yet proved (stated in DESIGN §6 C07).",
  technique="Lean 4 theorem proving (induction over chunk lists and chain syntax) + differential correspondence + answers of the built code regenerated as a table and agreement proved by kernel evaluation",
  design="§6 C07"),
 "C06": dict(
  text="Machine-checked proof on the model of jwk_clean/jose_jwk_pub (Jose/Jwk.lean) over the key-type and "
       "key-operation tables regenerated from the library's constructor on every run: after a successful export no "
       "private member of the key's type remains (oct k; RSA d,p,q,dp,dq,qi,oth; EC d — table facts re-proved by "
       "decide against the regenerated tables), every other member is unchanged, key_ops loses exactly the private "
       "(for symmetric keys: all registered) operations, export is idempotent, arrays and JWKSets are cleaned "
       "element-wise. kty matching in any letter case included. Differential run: every subset of private members, "
       "kty case variants, 2^8 key_ops subsets with junk, nested containers, with a direct oracle of the statement. "
       "The 'produced objects never contain secrets' half is validated by scanning every JWS/JWE produced in the "
       "C03/C04 runs for the encodings of all secrets involved (not a theorem). model_is_code_on_grid: the model's answers equal the answers of the library built from the working tree on a grid of about 322 operations regenerated on every run (Jose/Grid/C06.lean), proved by kernel evaluation.",
  note="Trusted: Lean kernel, standard axioms; extract_tables.py; model tied to lib/jwk.c by differential testing; "
       "secrecy of primitive outputs (signature, ciphertext) is cryptography and is not claimed.",
  technique="Lean 4 theorem proving (generic list lemmas + decide on regenerated tables) + differential correspondence + answers of the built code regenerated as a table and agreement proved by kernel evaluation",
  design="§6 C06"),
 "C12": dict(
  text="Machine-checked proof on the model of jwk_str/jose_jwk_thp/jose_jwk_thp_buf/jose_jwk_eql: the hash input is the "
       "compact sorted dump of exactly kty + the type's required members (concrete RFC 7638 shape proved for EC, RSA, "
       "oct; required-member lists and digest sizes are table facts re-proved on the regenerated tables), it ignores "
       "every other member, string and buffer forms agree and the size query returns the digest length, short buffers "
       "are refused, keys lacking a required member or of unknown type have no thumbprint and equal nothing; equality "
       "characterised member-wise. Differential run incl. every buffer length 0..70 x 5 hashes with canaries, "
       "escapes/non-ASCII values, and a direct oracle: hashlib over the RFC 7638 string; eql vs thumbprint equality on "
       "20k ordered pairs. model_is_code_on_grid: the model's answers equal the answers of the library built from the working tree on a grid of about 196 operations regenerated on every run (Jose/Grid/C12.lean), proved by kernel evaluation.",
  note="Trusted: Lean kernel, standard axioms; hash function is an abstract parameter (collision resistance cannot "
       "be a theorem); 'eql coincides with thumbprint equality' is checked on pairs by the oracle, the general "
       "injectivity-of-dump theorem is not yet proved; to/from OpenSSL conversion is covered by correspondence only.",
  technique="Lean 4 theorem proving + regenerated tables + differential correspondence + answers of the built code regenerated as a table and agreement proved by kernel evaluation",
  design="§6 C12"),
 "C01": dict(
  text="Machine-checked proof on the model of jose_jws_ver/jose_jws_ver_io and the sign.ver hooks (Jose/Jws.lean), for "
       "every instance of the abstract primitives: exact characterisation of the verdict for a single key (some "
       "signature object passes) and for key lists (all: non-empty and every key; any: some key); a passing pair means "
       "the algorithm named by the merged header (or the key) is registered, the key declares no other and may verify, "
       "and the family's primitive accepted the decoded signature over exactly protected '.' payload (HMAC equality "
       "with key length in [hash, KEYMAX]; ECDSA r||s of exact width under a key EC_KEY_check_key accepted; RSA with "
       "modulus >= 256 bytes); vacuous cases (empty key set, empty/absent signatures, absent signature) fail; 'none' "
       "is not registered; streaming verdict = one-shot verdict for every chunking (verdict of any multiplexer tree is "
       "a function of the concatenated data). Differential run: jose-signed and Lean-signed tokens of all 13 "
       "algorithms, ~8k mutations (every signature character, payload/protected positions, alg games, key edits, key "
       "set shapes x any/all, streaming), against an independent Lean implementation of HMAC/ECDSA/RSASSA; every "
       "acceptance by jose is re-derived from raw primitive checks by a specification oracle. Added after the seeded campaign: non-text protected headers (object, array, scalar) on tokens signed over an empty protected header, flattened and general.",
  note="Trusted: Lean kernel, standard axioms; primitives are parameters (their cryptographic strength is not claimed); "
       "model tied to lib/jws.c + lib/openssl/{hmac,ecdsa,rsassa,jwk}.c by differential testing against the "
       "independent Lean primitives (Jose/Crypto); nested key lists are not modelled; timing of comparisons is out of scope.",
  technique="Lean 4 theorem proving (tree semantics, case analysis) + differential correspondence with an independent implementation",
  design="§6 C01"),
 "C03": dict(
  text="Machine-checked proof on the model of jose_jws_sig (find_alg, encode_protected, sign.sig hooks, add_entity): the "
       "bytes handed to the signing primitive are exactly ASCII(protected') '.' payload with protected' the member "
       "stored; an encoded protected header is stored verbatim; after find_alg the merged header names exactly the "
       "algorithm applied (header's, else suggested from the key and recorded in the protected header) and the key "
       "declares no other; round trip: what is appended verifies under the same key for every family/template/"
       "algorithm source, given stated laws for ECDSA/RSA correctness for that key and the JSON layer re-reading its own "
       "dump (HMAC needs no law; base64 round trip through JSON strings is proved). Differential/interop run both ways "
       "with the independent Lean implementation: 680 sign ops x 2 sides, every token verified by both sides under key "
       "and public half, HMAC and RS* values bit-identical, general form (2nd/3rd signature), multi-key calls, streamed "
       "payloads, RFC 7515/7520 vectors. Also through the command-line tool with payloads covering every byte value, NUL, 0xFF, dots, newlines (file and stdin, JSON and compact), each verified by the library, the model and `jws ver -I`.",
  note="Trusted: Lean kernel, standard axioms; primitive laws are hypotheses (validated against OpenSSL by interop); "
       "the independent implementation shares no code with jose or OpenSSL; randomized signatures (ES*, PS*) are "
       "compared by cross-verification, not bit for bit.",
  technique="Lean 4 theorem proving + bidirectional differential interop with an independent Lean implementation",
  design="§6 C03"),
 "C15": dict(
  text="Machine-checked proof, 21 theorems. Merge: on the model of jose_jws_hdr / jose_jwe_hdr, for every parameter name and "
       "every presence pattern the merged value is protected, else shared unprotected, else per-recipient (JWS: protected, "
       "else header), identical for object and encoded protected headers; unusable headers make the merge fail. Applied = "
       "recorded: whatever jose_jws_sig appends names, in its merged header, exactly the algorithm whose signing leaf "
       "produced the stored signature, and a caller-supplied algorithm is kept or the call fails (jws_applied_is_recorded, "
       "jws_supplied_alg_kept); when jose_jwe_enc_cek_io goes ahead with content encryption a, the merged header of the "
       "object it leaves names a — from protected, else unprotected, else the CEK's alg, else suggested and then written "
       "(jwe_enc_applied_is_recorded); ECDSA names bind the curve on both sides (ES256=P-256 ... after fix 8c50062); zip "
       "is honoured from the protected header only, for encryption and decryption. Inference: the model's four suggestion "
       "functions (sign.sug, wrap.alg, encr.sug, wrap.enc) equal the library's hooks on a grid of 140 probe keys x 21 "
       "algorithms REGENERATED FROM THE BUILT CODE ON EVERY RUN and re-proved by kernel evaluation (sug_*_is_code); likewise the header merge itself on 1416 regenerated rows (model_is_code_on_grid). "
       "Differential run: all presence patterns x forms x malformed headers; producing calls with conflicting enc/alg/zip "
       "across protected/shared/per-recipient headers and the key, inference for every key type, size, curve and password "
       "length class; every produced object is checked for the shape (iv, tag, ciphertext, signature length) its own merged "
       "header implies and is processed by the independent implementation using only what it records.",
  note="Trusted: Lean kernel, standard axioms (decide +kernel for the grid: no extra axiom); the JSON layer's load(dump p)=p law "
       "is a hypothesis of the two applied=recorded theorems (validated by b64.enc_dump/dec_load operations); the suggestion "
       "grid is finite (thresholds, every name list, junk) — between grid points the tie is the differential run; the "
       "key-management half of JWE producing (alg recorded per recipient) is covered by correspondence, not by a theorem.",
  technique="Lean 4 theorem proving + tables regenerated from the built code and re-proved by kernel evaluation + differential correspondence",
  design="§A, §6 C15"),
 "C16": dict(
  text="Machine-checked proof, 18 theorems, on the model of add_entity/encode_protected for unbounded histories: from any "
       "legal start (empty, flattened, general, empty list) any sequence of additions succeeds and leaves exactly one legal "
       "form holding the starting entries followed by the added ones in order, each showing the listed members it was added "
       "with; flattened->general moves the existing entry unchanged; never both forms; every non-listed top-level member is "
       "untouched (frame); encoded protected headers are never altered, encoding is idempotent. Earlier entries remain "
       "valid/usable: the verification verdict of a signature object is a function of its three listed members "
       "(verdict_of_view), unwrapping a recipient is a function of its two listed members and the JWE's protected/shared "
       "headers (recipient_usable_of_view), hence after ANY history the entry at every position verifies / unwraps, for every "
       "key and payload, exactly as the object originally there (earlier_signatures_survive, earlier_recipients_survive). "
       "Differential run: all histories of length <=4 over 11 entry kinds from 15 start shapes for both member sets (53k) "
       "with a direct layout oracle; real signing and wrapping histories with every template form at every position, "
       "verification of every earlier signature and decryption by every earlier recipient after each step, byte-for-byte "
       "check of encoded protected headers, recipients added after content encryption, multi-key calls with one shared template. model_is_code_on_grid: the model's answers equal the answers of the library built from the working tree on a grid of about 1000 operations regenerated on every run (Jose/Grid/C16.lean), proved by kernel evaluation.",
  note="Trusted: Lean kernel, standard axioms; model tied to lib/openssl/misc.c, lib/jws.c, lib/jwe.c by differential testing.",
  technique="Lean 4 theorem proving (invariant over histories, congruence of verification/unwrapping in the listed members) + exhaustive short-history differential + real histories + answers of the built code regenerated as a table and agreement proved by kernel evaluation",
  design="§A, §6 C16"),
 "C02": dict(
  text="Machine-checked proof on the model of jose_jwe_dec_cek(_io)/jose_jwe_dec_jwk and the encr.dec / wrap.unw hooks, "
       "for every instance of the primitives: one-shot decryption succeeds only if the ciphertext text is canonical, the "
       "algorithm is the merged header's (CEK declaring another is refused), key and IV have exactly the algorithm's "
       "lengths, and the primitive accepts (key, iv, aad, ciphertext, tag) where aad = protected text, then '.' and "
       "the aad text IN FULL; GCM: 16-byte tag; CBC-HMAC: tag = first half of HMAC(first key half, aad||iv||ct||AL) "
       "checked before CBC decryption under the second half; zip honoured only from the protected header; streaming "
       "verdict = one-shot verdict for every chunking; AES-KW and PBES2 unwrapping bound to encrypted_key / p2s / p2c "
       "(bounds before derivation). Differential run: ~18k mutated tokens over all 21 x 6 combinations (every iv/tag "
       "character, positions incl. the tail of aad/protected/ciphertext/encrypted_key, epk, apu/apv, p2s/p2c, "
       "GCMKW iv/tag, key edits, wrong keys), jose-made and Lean-made tokens, against the independent Lean "
       "implementation; every mutation that must be refused is asserted directly on jose.",
  note="Trusted: Lean kernel, standard axioms; primitives are parameters; the model is tied to lib/jwe.c and "
       "lib/openssl/*.c by differential testing against Jose/Crypto (AES, GCM, CBC, KW, RSAES, PBKDF2, ECDH); "
       "plaintext blocks are released before `done` in streaming mode (inherent; the property speaks of the verdict).",
  technique="Lean 4 theorem proving + differential correspondence with an independent implementation",
  design="§6 C02"),
 "C04": dict(
  text="Machine-checked proof on the model of jose_jwe_enc_cek and the content encryptors: for every family what is "
       "sealed opens again (under stated GCM/CBC/HMAC-length laws), ciphertext and tag are exactly the primitives' "
       "outputs on the RFC 7518 inputs (GCM over aad-in-full; CBC under the second key half, tag = first half of "
       "HMAC over aad||iv||ct||AL under the first), the members iv/tag/ciphertext written are read back unchanged "
       "(base64url through JSON strings proved), aad unaffected, compression one stream iff zip is protected, "
       "inflate∘deflate law ⇒ plaintext. Differential/interop run with a RAND_bytes tape: all 21 key-management x 6 "
       "content algorithms x zip x aad x header placement bit-for-bit where the tape determines the output, every "
       "token cross-decrypted by both implementations and refused for foreign keys, inferred algorithms, 1..3 "
       "recipients, re-wrap, streamed enc/dec under random chunkings, RFC 7520 §5 vectors. Also: PBES2 p2c and ECDH-ES apu/apv placed in each of the three headers, and single calls for several keys (no template, empty, one template object with its own header, one per key) for every family that writes per-recipient parameters; each token decrypted by every key on both sides.",
  note="Trusted: Lean kernel, standard axioms; primitive laws are hypotheses validated by interop; key wrapping "
       "round trip (wrp/unw) is covered by the correspondence and per-family theorems in C02, not by one general theorem; "
       "known finding recorded: an RSA1_5 recipient shadows a later recipient of another RSA key.",
  technique="Lean 4 theorem proving + bidirectional differential interop with an independent Lean implementation",
  design="§6 C04"),
 "C05": dict(
  text="Machine-checked proof: the grant decision of jose_jwk_prm equals the documented one for every object key, "
       "operation and 'required' mode (listed in key_ops, or use=sig/enc with the matching operations — the operation "
       "table is a fact re-proved on the regenerated table —, or no metadata unless required); algorithm mismatch is "
       "refused at every entry point whatever the two names (C01.verSelect_spec, C03.findAlgSig_spec/keyAlgOk, "
       "C02.dec_alg_select, Jwe.decJwkSelect, C13.excSelect_mismatch: no ordering hypothesis) and each entry point "
       "demands the operation its registry row names (table facts). Differential run: prm exhaustively over 2^11 "
       "key_ops subsets x 6 use values x 10 operations x 2 modes; every ordered pair (key alg, header alg) over all "
       "registered names of the kind plus names sorting before/between/after, through jws sig/ver, jwe dec_jwk/"
       "enc_cek/dec_cek, jwk exc, with keys that would otherwise succeed; 12 metadata cases x 10 entry points, against "
       "a direct oracle of the statement. Also every ordered pair (key's declared content encryption, header enc) through the whole-call entry point with alg=dir, including pairs of equal key size. model_is_code_on_grid: the model's answers equal the answers of the library built from the working tree on a grid of about 1540 operations regenerated on every run (Jose/Grid/C05.lean), proved by kernel evaluation.",
  note="Trusted: Lean kernel, standard axioms (grind used for one boolean table fact); a non-string 'use' member is "
       "treated as malformed (refusal accepted).",
  technique="Lean 4 theorem proving (decision logic stated outright) + exhaustive differential on the finite part + answers of the built code regenerated as a table and agreement proved by kernel evaluation",
  design="§6 C05"),
 "C13": dict(
  text="Machine-checked proof: ECDH agreement and the McCallum-Relyea recovery identity s(cG+eG) - e(sG) = c(sG) in "
       "any commutative group with a scalar action (laws as structure fields, instance exhibited); the three ECMR "
       "modes are the model's case split; results contain only kty/crv/x/y; refusals for different kty, differing "
       "declared algorithms (no ordering hypothesis), missing private key (ECDH); deriveKey demanded of both keys "
       "(table fact). Differential run on all ordered pairs of 8 EC keys x decorations x private/public shapes with "
       "expected coordinates from pure-Python curve arithmetic, role symmetry, and the blinded recovery executed on "
       "the implementation with freshly generated client/server/ephemeral keys on three curves.",
  note="Trusted: Lean kernel, standard axioms; that P-256/384/521 are such groups and OpenSSL implements them is "
       "trusted and cross-checked numerically (tools/ecmath.py, Jose/Crypto/Ec.lean).",
  technique="Lean 4 theorem proving (group algebra) + differential correspondence + independent numeric oracle",
  design="§6 C13"),
 "C19": dict(
  text="Machine-checked proof on an executable model of `jose fmt` (cmd/fmt.c): the option list is folded left to right "
       "over a stack machine whose values live in a heap (so the aliasing the manual relies on is modelled); proved for "
       "every option list and every starting state: the run stops at the first failing option and later options have no "
       "effect (state and outputs are those at the failure), the exit status is the 1-based index of the failing option "
       "(index of the -X for a -X not followed by an assertion or left dangling), 0 otherwise; -X inverts exactly the "
       "next assertion and is used up; options that need TOP/PREV fail (never crash) on an empty/short stack or wrong "
       "types; -t's clamping spec incl. negative counts and non-array TOP; in-place options keep the stack, pushes add "
       "exactly one value, -U removes exactly TOP. Three-way differential run (80k programs quick): the real CLI "
       "(forked in-process under ASan/UBSan, files and stdin included) vs the Lean model vs an executable transcription "
       "of the manual (tools/fmtspec.py) used as the direct oracle. Also copy/query independence programs (nested values copied, walked into, mutated, whole stack printed) and values whose members are given in non-sorted order at several depths. model_is_code_on_grid: the model's answers equal the answers of the library built from the working tree on a grid of about 1326 operations regenerated on every run (Jose/Grid/C19.lean), proved by kernel evaluation.",
  note="Trusted: Lean kernel, standard axioms; getopt_long argument parsing is mirrored in Jose.Fmt.parseArgv and "
       "compared, not verified; jansson load/dump modelled (JsonParse/dump) and compared; status values above 255 "
       "wrap in the OS exit status (status compared modulo 256, stated in DESIGN). F13 (-t on a non-array TOP / "
       "negative counts) was found by this check and fixed.",
  technique="Lean 4 theorem proving (induction over the option list) + three-way differential correspondence + answers of the built code regenerated as a table and agreement proved by kernel evaluation",
  design="§6 C19"),
 "C17": dict(
  text="Machine-checked proof on the model of lib/cfg.c for every history of context operations (create, incref, decref, "
       "register, clear, read back, report; any number of contexts): a context's state after any history is what its own "
       "operations made of it (run_local: other contexts and reports have no influence), reading back returns the user "
       "pointer of the most recent registration on that context, a report reaches exactly that context's current handler "
       "with its current pointer and unchanged code/text, a cleared handler or the NULL context means the default handler "
       "with the documented file:line:NAME:text format (names are a regenerated table), reads and reports change nothing, "
       "a context lives until releases outnumber acquisitions. The library's writable static storage (regenerated from "
       "the object files by nm) consists only of load-time registries and constant tables (decide). Shared templates of "
       "multi-key sign/wrap calls are read, never updated (model theorems). Validated, not proved (properties of compiled "
       "C that no Lean model can exhibit): every read-only entry point and every shared-template call leaves its JSON "
       "arguments deep-equal and their reference counts unchanged (harness deep-compare on ~10k valid and damaged "
       "inputs), no writable static region of the library changes across the battery (link-map fingerprints), and the "
       "battery gives line-for-line the same results on 2/4/8/16 threads under ThreadSanitizer with no race report. model_is_code_on_grid: the model's answers equal the answers of the library built from the working tree on a grid of about 651 operations regenerated on every run (Jose/Grid/C17.lean), proved by kernel evaluation.",
  note="Trusted: Lean kernel, standard axioms; model tied to lib/cfg.c by exhaustive short histories + random long ones; "
       "argument purity, static-storage stability and race freedom are dynamic validation (ASan/TSan builds of the working "
       "tree), labelled as such; TSan does not see inside OpenSSL/jansson. F3 (get_err_misc returned the handler) was "
       "found by this check and fixed.",
  technique="Lean 4 theorem proving (induction over histories) + regenerated static-storage table + instrumented  + answers of the built code regenerated as a table and agreement proved by kernel evaluation"
            "differential runs (argument deep-compare, static-region fingerprints, ThreadSanitizer)",
  design="§6 C17"),
 "C14": dict(
  text="Machine-checked proof on the model of the PBES2 hooks, jose_jwe_dec_cek and the KEYMAX guards, for every instance of "
       "the primitives: on unwrap a p2c that is not a JSON integer, is above 32768 or below 1 is refused before (and "
       "independently of) any key derivation; whenever unwrapping succeeds the one derivation performed used the header's "
       "own count with 1 <= count <= 32768, a salt of 8..1024 bytes and a password of at most 1024 bytes; on wrap the count "
       "used and recorded is the header's 64-bit integer (default: the maximum) within 1000..32768, every other value "
       "refused (no 32-bit narrowing: concrete wrap-around values proved refused); one-shot decryption refuses a JWE with zip "
       "in the protected header and more than 262144 characters of ciphertext before decrypting or inflating, and the guard "
       "plays no role otherwise; HMAC keys, apu/apv, exchanged coordinates, wrapped keys are bounded by KEYMAX, content and "
       "wrapping keys have exactly the algorithm's length. Constants are regenerated from the headers each run. Boundary "
       "grids (p2c x 22 values + non-integers x wrap/unwrap x 3 algorithms x header placement, p2s 0..40/1022..1026/2048/"
       "65536, ciphertext 262140..262148 characters x zip placement, inflate feeds around 256 KiB, 1023..65536-byte members) "
       "run on the implementation and the model under a per-operation watchdog.",
  note="Trusted: Lean kernel, standard axioms; 'promptly' is measured (20 s watchdog under ASan), not proved; the per-feed "
       "limit of the inflate stage is validated by the grid (the stage is modelled at verdict level). Found and fixed by "
       "this check: F9 (wrap read p2c through a 32-bit int) and F17 (unwrap: negative p2c narrowed to up to 2^31-1 "
       "iterations: unbounded work).",
  technique="Lean 4 theorem proving (guards precede primitives, for all primitive instances) + boundary-grid differential "
            "with watchdog",
  design="§6 C14"),
 "C10": dict(
  text="Machine-checked proof on the model, for every instance of the primitives and on both the producing and the consuming "
       "side: an HMAC signer/verifier exists only for a key of at least the digest size (32/48/64, table facts) and at most "
       "KEYMAX bytes, and the MAC is computed with exactly the decoded key; RSA signers and verifiers exist only for a "
       "modulus of at least 256 bytes; every EC key used to sign, verify, exchange or agree was accepted by the validity "
       "primitive (what EC_KEY_check_key decides: on curve, order, d*G = Q) evaluated on exactly the given crv/x/y/d, with crv "
       "one of the four named curves, and exchange requires both keys valid on the same curve; content keys, IVs and AES "
       "key-wrapping keys have exactly the algorithm's length (lengths are table facts), never truncated or padded. "
       "Grids on the implementation and the model with an independent pure-Python oracle (hmac/hashlib, big-integer RSA, "
       "curve arithmetic): every HMAC key length, pre-generated 512..2040-bit RSA keys with genuine signatures, ~25 "
       "invalid-EC-key constructions per curve through sign/verify/exchange/ECDH-ES, every content- and wrapping-key length. Small RSA moduli written with leading zero octets (encoding length >= 256 bytes) are refused for signing and verifying.",
  note="Trusted: Lean kernel, standard axioms; that EC_KEY_check_key implements the validity predicate is cross-checked "
       "numerically by tools/ecmath.py and Jose/Crypto/Ec.lean, not proved. Not counted as invalid (stated assumptions): "
       "extra leading zero bytes; coordinates >= p whose residue is on the curve; an ES256 header used with a P-384 key "
       "(the library does not tie the algorithm name to the curve; the property does not demand it).",
  technique="Lean 4 theorem proving (admission predicates, both sides) + exhaustive length grids / invalid-key constructions "
            "with an independent numeric oracle",
  design="§6 C10"),
 "C11": dict(
  text="Machine-checked proof on the model of jose_jwk_gen for every template and every instance of the primitives: the "
       "call is PREP (what \"alg\" implies; regenerated table) ; MAKE ; key_ops inference ; completeness. An oct key is "
       "made only for 1..KEYMAX bytes, its k is exactly the next `bytes` bytes of the generator (base64url proved "
       "injective, so distinct generator outputs give distinct keys) and \"bytes\" is removed; an RSA key only for a "
       "64-bit size >= 2048 and <= INT_MAX (no narrowing) and an exponent that is absent (65537), a non-negative integer or "
       "base64url, passing the 3-or-odd-17..256-bit rule, with members = generator(bits, e) and \"bits\" removed; an EC "
       "key only on the four named curves (default P-256) with (d,x,y) = generator(curve), existing members must equal; "
       "kty / bytes / crv contradicting alg are refused; key_ops are inferred exactly when alg is given and neither use nor "
       "key_ops is; the content IV is the generator's next bytes. Grid (3.9k templates; RSA generations capped) on the "
       "implementation and the model with an independent arithmetic oracle on every accepted key (sizes, n=pq, "
       "de=1 mod lcm, CRT, d*G=Q, widths), each key used with its algorithm; freshness: pairwise distinctness of k, d, n, p, "
       "CEK, IV, p2s, epk, GCMKW iv over repeated calls without a tape. Random-generator failure injected at every request of every consumer (oct keys, CEKs, IVs, PBES2 salt, GCMKW iv): the operation fails, nothing is handed out.",
  note="Trusted: Lean kernel, standard axioms; RSA/EC generation itself is OpenSSL's (primitive); the executable model's RSA "
       "generator is a stub and generated RSA/EC members are masked in the comparison; non-repetition of the RNG is "
       "statistical validation. Found and fixed: F8 (crash on e of wrong type), F18 (bits narrowed through int), F19 "
       "(negative e became 2^64-1). Known finding (open): templates naming alg dir.",
  technique="Lean 4 theorem proving (stage-wise characterisation) + regenerated tables + template-grid differential with "
            "independent arithmetic oracle + distinctness runs",
  design="§6 C11"),
 "C09": dict(
  text="PARTIAL, as the property is about the C runtime. Proved (Lean 4): every decode of a JSON value into any of the "
       "library's fixed buffers (KEYMAX key/salt/apu/apv/coordinate buffers, KEYMAX+16 wrapped-key buffer, exact-size key, "
       "IV, tag and digest buffers) writes at most the buffer's capacity and reads nothing beyond the text, for every "
       "JSON type, length and character content, and refuses without writing when the text would decode to more; the size "
       "query the guards rely on is exact; the reference-count scripts of jose_jws_hdr / jose_jwe_hdr (mirroring the C "
       "statement by statement) are balanced on every path for every JSON type of `protected`, every decode outcome and "
       "every merge outcome: caller counts unchanged, nothing created survives; IO stages release their `next`. "
       "Validated, not proved: every harness operation (all public entry points incl. OpenSSL conversions) on valid objects "
       "of every algorithm and on 1..4 random structural edits of any argument, under ASan+UBSan with per-call argument "
       "deep-compare, reference-count sums and steady-state heap balance; verdicts compared with the model.",
  note="Trusted: Lean kernel, standard axioms; gcc ASan/UBSan; the harness instrumentation. Memory safety of compiled C "
       "beyond the modelled guards is validation, not proof, and is labelled so. Implementation-only (no model verdict): "
       "nested key lists, RSA keys with inconsistent members, OpenSSL conversion functions. Found and fixed through this "
       "check or its instrumentation: F5 (borrowed reference released), F20 (decoded protected header leaked on every "
       "decryption), F21 (RSA d leaked on failed import), F8 (NULL dereference), F2 (heap over-read).",
  technique="Lean 4 theorem proving (buffer bounds for all inputs; ownership scripts over all JSON types; operational reference counts of IO chains of any length under every release order) + sanitizer-"
            "instrumented mutation differential (validation)",
  design="§6 C09"),
 "C20": dict(
  text="PARTIAL (runtime property). Proved (Lean 4) on the chain model, where an allocation failure is a call the sink or a "
       "stage answers false: for every chain of codecs/transformers over a sink whose k-th call fails and every chunking, the "
       "run reports failure, whether the failing call is a feed or the final done; hence a reported success means the "
       "failing call never took place (the run was the fault-free one); a transformer that cannot produce its output fails "
       "done; the header functions return nothing and stay balanced on their allocation-failure paths. Validated by "
       "exhaustive fault enumeration on the working tree (library malloc family redirected on the compile line, jansson "
       "allocator replaced with stack-walk attribution): 139 scenarios covering every operation kind and algorithm family, "
       "N allocations counted, the k-th failed for every k in 1..N (11.4k faulted runs, each x3 under ASan/UBSan): no crash, "
       "failure or the fault-free/valid result, heap balance.",
  note="Trusted: Lean kernel, standard axioms; harness/hx_alloc.c; ASan/UBSan. OpenSSL's internal allocations are not failed. "
       "Found and fixed: F22 (zip lookup ignored a failed header decode: compressed bytes returned as plaintext / compression "
       "skipped), F4 (hash done returned true on failure). Known findings (open, printed as KNOWN-FINDING): jansson 2.14 "
       "json_dumps / json_object_update_missing report success after an internal allocation failure, json_loadb crashes, and "
       "latchset/jose reads json_unpack's failure as 'member absent' (~60 sites).",
  technique="Lean 4 theorem proving (failure propagation, by induction over chain syntax; allocation-fault schedules over a checked call: a firing fault fails it, never a lie or crash) + exhaustive per-scenario "
            "allocation-fault enumeration (validation)",
  design="§6 C20"),
 "C18": dict(
  text="Machine-checked proof on the control-flow model of the tool (Jose/Cli.lean, over the model's library functions): "
       "jose jws ver exits 0 exactly when the library handed out a verifier and its final verdict was true (and, with -O, the "
       "payload was decodable), whatever output options are present; no verifier means failure; with -O exactly the decoded "
       "payload is written; jose jwe dec exits 0 exactly when unwrapping, decryptor construction and authenticated "
       "decryption succeeded, writes the plaintext only then and nothing on failure; the compact text "
       "protected.payload.signature parses back to exactly its three fields; jwk eql succeeds exactly when the library "
       "says equal; jose jwe enc is modelled (Cli.jweEnc: fails without key, with -c and several keys, and whenever the "
       "library refuses to wrap; its output is compared byte for byte under a RAND_bytes tape for every deterministic "
       "key management); jose jwe fmt is modelled (Cli.jweFmt): compact output of an object whose recipients list does not have "
       "exactly one element fails and prints nothing. Differential run (~5.8k command lines quick, 529 of them a fixed "
       "deterministic set for the primitive-free subcommands) of the working tree's cmd/ code (forked in the ASan "
       "harness, files and stdin) against the model and, independently, against the library through the harness: every "
       "subcommand, input forms (inline / file / stdin x JSON / compact stream), key arguments (right, wrong, unusable, "
       "several, sets), -a, -O, -I, -c, -o; every token produced by jws sig / jwe enc is accepted by jws ver / jwe dec; "
       "fmt conversions preserve verifiability / plaintext; compact output of several signatures or recipients fails. Also: compact tokens streamed from a file or stdin combined with -I, jwe fmt -c of general-form objects with 1/2/3 recipients (F14 found and fixed), a second signature added to tokens in every input spelling, payloads with 0xFF/NUL/dots.",
  note="Trusted: Lean kernel, standard axioms; Jose/Cli.lean models jws ver/sig/fmt, jwe dec, jwk thp/pub/eql/exc/gen/use, "
       "b64 enc/dec; jwe enc / jwe fmt are covered by the implementation-vs-library oracle only; long options, -p and "
       "`jose alg` are not exercised. Found and fixed: F10 (jws ver -a -O with unusable key exited 0), F11 (jwk thp printed "
       "stack garbage with exit 0), F23 (body member written twice: detached compact JWS no longer verified after fmt -I).",
  technique="Lean 4 theorem proving (exit-status and output decisions, compact parsing) + differential against the "
            "CLI code and the library oracle",
  design="§6 C18"),
}

NOT_YET = "check not built yet (framework under construction); will be claimed when its Lean theorems and correspondence exist"

# what the last session added to each check (appended to the claim text)
ADDED = {
 "C01": " Every shape of the key argument, lists nested in lists included, is covered by theorems verIoF_spec / ver_spec / ver_stream_spec (verdict = specF for one-shot and for every chunking) and nested_all_demands_every_key (F29). Generators: algorithm named only in the unprotected header for every algorithm, that header stripped or relabelled; the ECDSA signature valid for the all-zero digest as mutation and under every single allocation fault; signature arrays paired with key arrays; vacuous and key-set cases streamed.",
 "C02": " direct_refuses_encrypted_key: dir / ECDH-ES recipients with a non-empty encrypted key are refused (F30). Generators: members extended (every byte bound), named and unnamed recipients of general-form tokens, tokens without protected header, protected header re-spelled, passwords differing behind a NUL, mutated tokens through jose_jwe_dec_io.",
 "C04": " dir_joins_only_same_key (F32); wrp_gcmkw_spec now also yields that no shared header defines iv / tag (F28). Generators: aad without protected header, same-kind wrong keys, public-only recipient keys, content keys without alg, encoded empty protected header (F37), the combined streaming entry points jose_jwe_enc_io / jose_jwe_dec_io (same object as the one-shot call, every chunking), uncompressed plaintexts whose ciphertext text exceeds 256 KiB with every header placement.",
 "C05": " Generators: names in unprotected / per-recipient headers of the token handed in, general form, JWKSet containers, permissions under inference, asymmetric cross-declarations, keys declaring an algorithm of another family with nothing named in the template; names differing behind an embedded NUL are evaluated on every run and reported as the open known finding nul:c-string-compare.",
 "C06": " Generators: key_ops on public / partly private keys and with kty in other letter case, extras named like other types' private members, passwords searched in base64url form too.",
 "C08": " Generators: empty input as (NULL, 0), size queries on non-canonical text, raw NUL in decoded JSON, alphabet-only invalid text through the streamed decoder.",
 "C09": " Generators: every JOSE member a template lacks added with empty / ill-typed values, caller-supplied content keys at the buffer bound through every wrapping family, public-only keys, agreement data at the bound, encoded protected templates; nested key lists are compared with the model for verification.",
 "C10": " kw_wrap_domain / kw_unwrap_domain / kw_refuses_empty on the executable AES key wrap (F27). Generators: RFC 3394 key-data lengths for every KW-based algorithm (wrap and unwrap), ECDSA algorithm x curve x who names the algorithm with an independent ECDSA signer, remote keys given with an inconsistent d, consuming-side keys derived from the genuine one (padded / truncated), undecodable EC members, direct ECDH-ES tokens with an invalid ephemeral key or an inconsistent recipient d, PS* verification with small RSA keys (independent EMSA-PSS signer).",
 "C11": " Generators: per-byte freshness of every random output, per-recipient freshness inside one multi-recipient JWE, case variants of kty / crv / alg, bytes beyond 32 bits, RSA sizes other than the default in both tiers, generated exchange keys exchange.",
 "C12": " Generators: RSA keys with every subset of CRT members and symmetric keys through the OpenSSL conversion (F31), NUL-containing member values, extras named like other types' members, non-hash algorithm names.",
 "C13": " Generators: invalid key material in every role and ECMR mode, key_ops shapes, kty spellings with explicit alg.",
 "C14": " Generators: PBES2 password as JSON string at the 1024 bound (wrap and unwrap), every ciphertext text length around the 256 KiB bound in both tiers, wrapped content keys within the bound unwrap again, the x of an externally exchanged ECDH-ES key at the bound; zip_limit_unreadable_header (F35).",
 "C15": " pbes2_salt_not_shadowed / gcmkw_iv_tag_not_shadowed / ecdhes_epk_not_shadowed (F28). jwe_enc_applied_is_recorded now covers a protected header given as an object, absent, or already encoded (accepted since F37: an inferred enc then goes to the shared unprotected header, names_enc_after_set_str). Generators: generated parameters supplied by the caller in each header, one call for several keys with one template (JWE and JWS), encoded protected header in content encryption, unknown / ill-typed protected zip, keys declaring a non-signature algorithm under JWS inference.",
 "C16": " Generators: direct key agreement / direct encryption as first and as later recipient in directed sequences (F32), the command-line tool adding signatures step by step in six input spellings.",
 "C17": " Generators: protected header as object and as every other JSON type, zip tokens, explicit recipients in the read-only battery, key sets of one key with a shared template, producing calls in the thread and static-storage runs.",
 "C18": " jwe_fmt_compact_aad_fails (F36). Generators: aad in jwe enc templates with and without -c, jwe fmt -c of tokens with aad.",
 "C19": " Generators: false, base64url text of scalars behind -y, unsigned-range counts for -M / -i (F33), values from files and standard input, strings needing escapes, unopenable output files, long and bundled options, index spellings (the last group judged against the manual on the implementation; the model of the tool has no long names or bundling).",
 "C20": " Generators: one template for several keys (F34), several keys with all=true and one invalid signature, JWEs whose fault-free verdict is failure incl. a compressed token above the size bound (F35), inference / default branches that allocate, RSA1_5 unwrap, the zero-digest ECDSA forgeries.",
}


def main():
    checks = []
    for pid in sorted(CLAIMS):
        c = dict(CLAIMS[pid])
        c["text"] = c["text"] + ADDED.get(pid, "")
        checks.append({
            "property_id": pid,
            "quick_cmd": "./check %s --tier quick" % pid,
            "thorough_cmd": "./check %s --tier thorough" % pid,
            "evidence_file": "/verif/evidence/%s.json" % pid,
            "replay_cmd_template": "./check %s --replay {path}" % pid,
            "engine": "lean4-model+correspondence",
            "level_claimed": {"category": "proof", "text": c["text"], "design_ref": c["design"]},
            "level_note": c["note"],
            "technique": c["technique"],
        })
    na = [{"property_id": "C%02d" % i, "reason": NOT_YET} for i in range(1, 21) if "C%02d" % i not in CLAIMS]
    m = {
        "version": 1,
        "setup_cmd": "python3 tools/setup.py",
        "hooks": {
            "guard": "LATCHSET_JOSE_VERIF",
            "enable": "tools/build_repo.py compiles /repo's working tree with -DLATCHSET_JOSE_VERIF into /var/tmp (no source hooks are needed: internals are reached by linking the tree's objects into the harness)",
            "baseline_off_cmd": "meson test -C /repo/_build",
            "source_commits": [],
            "add_only": True,
        },
        "engines": [{
            "name": "lean4-model+correspondence", "path": "/verif/check",
            "serves_properties": sorted(CLAIMS),
            "kind_free_text": "Lean 4 model + theorems (lean/), tables regenerated from /repo each run (tools/extract_tables.py), differential correspondence of model vs. implementation (harness/, tools/props/), direct property oracle for violation search",
        }],
        "checks": checks,
        "notes": "see DESIGN.md; every check rebuilds /repo's working tree (content-hash keyed scratch build under /var/tmp/jose-verif-cache)",
        "not_applicable": na,
    }
    json.dump(m, open(os.path.join(VERIF, "MANIFEST.json"), "w"), indent=1)

if __name__ == "__main__":
    main()
