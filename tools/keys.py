"""Key pool: keys of every type/curve/size, generated once per repo build with the
working tree's own `jose jwk gen` (so they are 'jose-made') and cached next to the build.
RSA keys are additionally cached across builds in corpus/keys/ (generation is slow
and the keys are only test material)."""
import json, os, subprocess, base64

VERIF = os.path.dirname(os.path.dirname(os.path.abspath(__file__)))
STATIC = os.path.join(VERIF, "corpus", "keys", "pool.json")

TEMPLATES = {
    "EC-P256": {"kty": "EC", "crv": "P-256"},
    "EC-P384": {"kty": "EC", "crv": "P-384"},
    "EC-P521": {"kty": "EC", "crv": "P-521"},
    "EC-K256": {"kty": "EC", "crv": "secp256k1"},
    "EC-P256-b": {"kty": "EC", "crv": "P-256"},
    "EC-P384-b": {"kty": "EC", "crv": "P-384"},
    "EC-P521-b": {"kty": "EC", "crv": "P-521"},
    "EC-P256-c": {"kty": "EC", "crv": "P-256"},
    "RSA-2048": {"kty": "RSA", "bits": 2048},
    "RSA-2048-b": {"kty": "RSA", "bits": 2048},
    "RSA-3072": {"kty": "RSA", "bits": 3072},
    "RSA-4096": {"kty": "RSA", "bits": 4096},
    "oct-16": {"kty": "oct", "bytes": 16},
    "oct-24": {"kty": "oct", "bytes": 24},
    "oct-32": {"kty": "oct", "bytes": 32},
    "oct-48": {"kty": "oct", "bytes": 48},
    "oct-64": {"kty": "oct", "bytes": 64},
    "oct-128": {"kty": "oct", "bytes": 128},
    "oct-1024": {"kty": "oct", "bytes": 1024},
}


def b64u(b):
    return base64.urlsafe_b64encode(b).rstrip(b"=").decode()


def b64d(s):
    return base64.urlsafe_b64decode(s + "=" * (-len(s) % 4))


def generate(jose):
    pool = {}
    for name, t in TEMPLATES.items():
        r = subprocess.run([jose, "jwk", "gen", "-i", json.dumps(t)], stdout=subprocess.PIPE,
                           stderr=subprocess.PIPE, env=dict(os.environ, ASAN_OPTIONS="detect_leaks=0"))
        if r.returncode != 0:
            raise RuntimeError("jose jwk gen failed for %s: %s" % (name, r.stderr[-300:]))
        pool[name] = json.loads(r.stdout)
    return pool


def pool(jose):
    """static pool (committed test material); generated with the given binary if missing"""
    if os.path.exists(STATIC):
        return json.load(open(STATIC))
    p = generate(jose)
    os.makedirs(os.path.dirname(STATIC), exist_ok=True)
    json.dump(p, open(STATIC, "w"), indent=0, sort_keys=True)
    return p


def public(k):
    prv = {"oct": ["k"], "RSA": ["d", "p", "q", "dp", "dq", "qi", "oth"], "EC": ["d"]}[k["kty"]]
    return {m: v for m, v in k.items() if m not in prv}
