/* b64.* operations: lib/b64.c through real buffers with canaries on both sides */
#include "hx.h"
#include <jose/b64.h>

static bool
canary_ok(const uint8_t *p)
{
    for (size_t i = 0; i < CANARY; i++)
        if (p[i] != CANARY_BYTE)
            return false;
    return true;
}

/* shared by enc_buf / dec_buf.  args: in (hex), ol (int) or absent => NULL output */
static json_t *
buf_op(json_t *args, size_t (*fn)(const void *, size_t, void *, size_t))
{
    size_t il = 0;
    uint8_t *in = hx_arg_hex(args, "in", &il);
    json_t *olj = json_object_get(args, "ol");
    json_t *res = json_object();
    uint8_t *exact = NULL;

    if (!in)
        return json_pack("{s:s}", "error", "no-in");
    /* exact-size copy of the input so that ASan sees any read beyond il */
    exact = malloc(il ? il : 1);
    memcpy(exact, in, il);
    /* "null": the empty input given as (NULL, 0), as jose's own callers do (jose_io_malloc leaves the pointer NULL when
     * nothing was written) */
    if (il == 0 && json_is_true(json_object_get(args, "null"))) {
        free(exact);
        exact = NULL;
    }

    if (!json_is_integer(olj)) {
        json_object_set_new(res, "ret", hx_size(fn(exact, il, NULL, 0)));
    } else {
        size_t ol = (size_t) json_integer_value(olj);
        uint8_t *raw = malloc(ol + 2 * CANARY);
        uint8_t *o = raw + CANARY;
        size_t r;
        memset(raw, CANARY_BYTE, ol + 2 * CANARY);
        memset(o, 0xEE, ol);
        r = fn(exact, il, o, ol);
        json_object_set_new(res, "ret", hx_size(r));
        json_object_set_new(res, "canary", json_boolean(canary_ok(raw) && canary_ok(o + ol)));
        if (r != SIZE_MAX && r <= ol)
            json_object_set_new(res, "out", hx_hex(o, r));
        free(raw);
    }
    free(exact);
    free(in);
    return res;
}

static json_t *op_enc_buf(json_t *args) { return buf_op(args, jose_b64_enc_buf); }
static json_t *op_dec_buf(json_t *args) { return buf_op(args, jose_b64_dec_buf); }

/* jose_b64_dec(json, o, ol): args j (any JSON or absent), ol (int or absent) */
static json_t *
op_dec(json_t *args)
{
    json_t *j = hx_arg(args, "j");
    json_t *olj = json_object_get(args, "ol");
    json_t *res = json_object();

    if (!json_is_integer(olj)) {
        json_object_set_new(res, "ret", hx_size(jose_b64_dec(j, NULL, 0)));
    } else {
        size_t ol = (size_t) json_integer_value(olj);
        uint8_t *raw = malloc(ol + 2 * CANARY);
        uint8_t *o = raw + CANARY;
        size_t r;
        memset(raw, CANARY_BYTE, ol + 2 * CANARY);
        r = jose_b64_dec(j, o, ol);
        json_object_set_new(res, "ret", hx_size(r));
        json_object_set_new(res, "canary", json_boolean(canary_ok(raw) && canary_ok(o + ol)));
        if (r != SIZE_MAX && r <= ol)
            json_object_set_new(res, "out", hx_hex(o, r));
        free(raw);
    }
    return res;
}

static json_t *
op_dec_load(json_t *args)
{
    return hx_opt(jose_b64_dec_load(hx_arg(args, "j")));
}

static json_t *
op_enc(json_t *args)
{
    size_t il = 0;
    uint8_t *in = hx_arg_hex(args, "in", &il);
    json_t *r;
    if (!in)
        return json_pack("{s:s}", "error", "no-in");
    r = hx_opt(jose_b64_enc(il == 0 && json_is_true(json_object_get(args, "null")) ? NULL : in, il));
    free(in);
    return r;
}

static json_t *
op_enc_dump(json_t *args)
{
    return hx_opt(jose_b64_enc_dump(hx_arg(args, "j")));
}

const op_t ops_b64[] = {
    { "b64.enc_buf", op_enc_buf },
    { "b64.dec_buf", op_dec_buf },
    { "b64.dec", op_dec },
    { "b64.dec_load", op_dec_load },
    { "b64.enc", op_enc },
    { "b64.enc_dump", op_enc_dump },
    { NULL, NULL }
};
