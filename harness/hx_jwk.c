/* jwk.* operations: lib/jwk.c */
#include "hx.h"
#include <jose/jwk.h>
#include <jose/openssl.h>
#include <openssl/evp.h>

static json_t *
op_prm(json_t *args)
{
    json_t *jwk = hx_arg(args, "jwk");
    const char *op = hx_arg_str(args, "op");
    bool req = hx_arg_bool(args, "req", false);
    return json_pack("{s:b}", "r", jose_jwk_prm(NULL, jwk, req, op));
}

static json_t *
op_pub(json_t *args)
{
    json_t *jwk = json_deep_copy(hx_arg(args, "jwk"));
    bool ok = jose_jwk_pub(NULL, jwk);
    json_t *res = json_object();
    json_object_set_new(res, "ok", json_boolean(ok));
    json_object_set_new(res, "jwk", jwk ? jwk : json_null());
    /* second export of the result (idempotence is part of C06) */
    if (ok) {
        json_t *again = json_deep_copy(jwk);
        bool ok2 = jose_jwk_pub(NULL, again);
        json_object_set_new(res, "again_same", json_boolean(ok2 && json_equal(again, jwk)));
        json_decref(again);
    }
    return res;
}

static json_t *
op_eql(json_t *args)
{
    return json_pack("{s:b}", "r", jose_jwk_eql(NULL, hx_arg(args, "a"), hx_arg(args, "b")));
}

static json_t *
op_thp(json_t *args)
{
    return hx_opt(jose_jwk_thp(NULL, hx_arg(args, "jwk"), hx_arg_str(args, "alg")));
}

static json_t *
op_thp_buf(json_t *args)
{
    json_t *lj = json_object_get(args, "len");
    json_t *res = json_object();
    if (!json_is_integer(lj)) {
        json_object_set_new(res, "ret", hx_size(jose_jwk_thp_buf(NULL, hx_arg(args, "jwk"),
                                                                hx_arg_str(args, "alg"), NULL, 0)));
    } else {
        size_t len = (size_t) json_integer_value(lj);
        uint8_t *raw = malloc(len + 2 * CANARY);
        uint8_t *o = raw + CANARY;
        size_t r;
        bool ok = true;
        memset(raw, CANARY_BYTE, len + 2 * CANARY);
        r = jose_jwk_thp_buf(NULL, hx_arg(args, "jwk"), hx_arg_str(args, "alg"), o, len);
        for (size_t i = 0; i < CANARY; i++)
            if (raw[i] != CANARY_BYTE || o[len + i] != CANARY_BYTE)
                ok = false;
        json_object_set_new(res, "ret", hx_size(r));
        json_object_set_new(res, "canary", json_boolean(ok));
        if (r != SIZE_MAX && r <= len && len > 0)
            json_object_set_new(res, "out", hx_hex(o, r));
        free(raw);
    }
    return res;
}

/* ossl.roundtrip {jwk}: JWK -> EVP_PKEY -> JWK through the public conversion functions */
static json_t *
op_ossl_roundtrip(json_t *args)
{
    EVP_PKEY *k = jose_openssl_jwk_to_EVP_PKEY(NULL, hx_arg(args, "jwk"));
    json_t *back = NULL;
    if (k) {
        back = jose_openssl_jwk_from_EVP_PKEY(NULL, k);
        EVP_PKEY_free(k);
    }
    return json_pack("{s:b,s:o}", "imported", k != NULL, "jwk", back ? back : json_null());
}

const op_t ops_jwk[] = {
    { "ossl.roundtrip", op_ossl_roundtrip },
    { "jwk.prm", op_prm },
    { "jwk.pub", op_pub },
    { "jwk.eql", op_eql },
    { "jwk.thp", op_thp },
    { "jwk.thp_buf", op_thp_buf },
    { NULL, NULL }
};
