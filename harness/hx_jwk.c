#include "hx.h"
const op_t ops_jwk[] = { { NULL, NULL } };
