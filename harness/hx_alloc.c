/* alloc.run: allocation-fault enumeration (C20).
 *
 * Counted and failable: (1) malloc/calloc/realloc/strdup called by the library's own objects (redirected
 * on the compile line in the "alloc" build), (2) jansson's allocations made on the library's behalf
 * (json_set_alloc_funcs + a stack walk: the first frame outside libjansson must lie in the library's
 * text).  OpenSSL's and the harness's own allocations are left alone. */
#define _GNU_SOURCE
#include "hx.h"
#include <execinfo.h>
#include <dlfcn.h>
#include <link.h>

extern op_fn hx_find_op(const char *name);
extern size_t __sanitizer_get_current_allocated_bytes(void);

static int armed;
static long long a_count, a_fail_at;
static int a_fired;
static char a_entry[80];
static uintptr_t jan_lo, jan_hi;
static struct { uintptr_t lo, hi; } lib_text[64];
static size_t n_lib_text;
void hx_text_anchor(void) {}

static int
phdr_cb(struct dl_phdr_info *info, size_t size, void *data)
{
    (void) size; (void) data;
    if (info->dlpi_name && strstr(info->dlpi_name, "libjansson")) {
        for (int i = 0; i < info->dlpi_phnum; i++) {
            if (info->dlpi_phdr[i].p_type == PT_LOAD && (info->dlpi_phdr[i].p_flags & PF_X)) {
                jan_lo = info->dlpi_addr + info->dlpi_phdr[i].p_vaddr;
                jan_hi = jan_lo + info->dlpi_phdr[i].p_memsz;
            }
        }
    }
    return 0;
}

static bool
in_lib(uintptr_t a)
{
    for (size_t i = 0; i < n_lib_text; i++)
        if (a >= lib_text[i].lo && a < lib_text[i].hi)
            return true;
    return false;
}

/* is this allocation requested by the library (directly, or through jansson)? */
static bool
on_behalf_of_lib(void)
{
    void *bt[32];
    int n = backtrace(bt, 32);
    int i = 0;
    /* frames of this allocator, then jansson's, then the requester */
    while (i < n && !((uintptr_t) bt[i] >= jan_lo && (uintptr_t) bt[i] < jan_hi))
        i++;
    while (i < n && (uintptr_t) bt[i] >= jan_lo && (uintptr_t) bt[i] < jan_hi)
        i++;
    return i < n && in_lib((uintptr_t) bt[i]);
}

static bool
should_fail(bool direct)
{
    if (!armed)
        return false;
    if (!direct && !on_behalf_of_lib())
        return false;
    a_count++;
    if (a_count == a_fail_at) {
        a_fired = 1;
        /* who asked: "direct" (the library's own malloc family) or the jansson function the library called */
        snprintf(a_entry, sizeof(a_entry), "direct");
        if (!direct) {
            void *bt2[32];
            int n2 = backtrace(bt2, 32), j = 0;
            while (j < n2 && !((uintptr_t) bt2[j] >= jan_lo && (uintptr_t) bt2[j] < jan_hi))
                j++;
            while (j + 1 < n2 && (uintptr_t) bt2[j + 1] >= jan_lo && (uintptr_t) bt2[j + 1] < jan_hi)
                j++;
            if (j < n2) {
                Dl_info di;
                if (dladdr(bt2[j], &di) && di.dli_sname)
                    snprintf(a_entry, sizeof(a_entry), "%s", di.dli_sname);
                else
                    snprintf(a_entry, sizeof(a_entry), "jansson");
            }
        }
        fprintf(stderr, "HXFIRE entry=%s\n", a_entry);
        if (getenv("HX_ALLOC_TRACE")) {
            void *bt[24];
            int n = backtrace(bt, 24);
            backtrace_symbols_fd(bt, n, 2);
            fputs("----\n", stderr);
        }
        return true;
    }
    return false;
}

void *verif_malloc(size_t n) { return should_fail(true) ? NULL : malloc(n); }
void *verif_calloc(size_t a, size_t b) { return should_fail(true) ? NULL : calloc(a, b); }
void *verif_realloc(void *p, size_t n) { return should_fail(true) ? NULL : realloc(p, n); }
char *verif_strdup(const char *s) { return should_fail(true) ? NULL : strdup(s); }

static void *jan_malloc(size_t n) { return should_fail(false) ? NULL : malloc(n); }
static void jan_free(void *p) { free(p); }

#include <openssl/err.h>

/* alloc.run {"op": name, "args": {...}, "k": K, "text": [[off,size],...]}  (offsets relative to hx_text_anchor) */
static json_t *
op_alloc_run(json_t *args)
{
    static bool init;
    const char *name = hx_arg_str(args, "op");
    json_t *inner = hx_arg(args, "args");
    op_fn fn = name ? hx_find_op(name) : NULL;
    json_t *res, *out;
    size_t b0, b1;
    long long leaked = 0;

    if (!fn || !inner)
        return json_pack("{s:s}", "error", "bad-alloc-run");
    if (!init) {
        json_t *t = hx_arg(args, "text"), *r;
        size_t i;
        dl_iterate_phdr(phdr_cb, NULL);
        json_array_foreach(t, i, r) {
            if (n_lib_text < 64) {
                lib_text[n_lib_text].lo = (uintptr_t) &hx_text_anchor + (intptr_t) json_integer_value(json_array_get(r, 0));
                lib_text[n_lib_text].hi = lib_text[n_lib_text].lo + (uintptr_t) json_integer_value(json_array_get(r, 1));
                n_lib_text++;
            }
        }
        json_set_alloc_funcs(jan_malloc, jan_free);
        init = true;
    }
    a_fail_at = hx_arg_int(args, "k", 0);
    /* warm-up without faults so that lazily initialised state of OpenSSL does not count as retained */
    if (hx_arg_bool(args, "warm", false)) {
        for (int w = 0; w < 2; w++) {
            res = fn(inner);
            json_decref(res);
            ERR_clear_error();
        }
    }
    /* measured run, result discarded: heap bytes before and after must be equal; bounded growth of
     * OpenSSL's error ring is told apart from a leak by a steady-state batch */
    b0 = __sanitizer_get_current_allocated_bytes();
    a_count = 0; a_fired = 0; armed = 1;
    res = fn(inner);
    armed = 0;
    json_decref(res);
    ERR_clear_error();
    b1 = __sanitizer_get_current_allocated_bytes();
    leaked = (long long) b1 - (long long) b0;
    if (leaked != 0) {
        size_t c0, c1;
        for (int r = 0; r < 32; r++) {
            if (r == 24)
                c0 = __sanitizer_get_current_allocated_bytes();
            a_count = 0; a_fired = 0; armed = 1;
            res = fn(inner);
            armed = 0;
            json_decref(res);
            ERR_clear_error();
        }
        c1 = __sanitizer_get_current_allocated_bytes();
        leaked = ((long long) c1 - (long long) c0) / 8;
    }
    /* the run whose result is reported */
    a_count = 0; a_fired = 0; armed = 1;
    res = fn(inner);
    armed = 0;
    out = json_pack("{s:O,s:b,s:I,s:s}", "res", res ? res : json_null(), "fired", a_fired, "count", (json_int_t) a_count,
                    "entry", a_fired ? a_entry : "");
    json_decref(res);
    ERR_clear_error();
    if (out && leaked != 0)
        json_object_set_new(out, "leak_bytes", json_integer((json_int_t) leaked));
    return out ? out : json_pack("{s:s}", "error", "alloc-run");
}

const op_t ops_alloc[] = {
    { "alloc.run", op_alloc_run },
    { NULL, NULL }
};
