#include "hx.h"
const op_t ops_io[] = { { NULL, NULL } };
