/* io.run: build a chain from the public constructors (plus the recording probe
 * sink), feed it chunk by chunk, report per-step verdicts and what the sinks hold. */
#include "hx.h"
#include <jose/io.h>
#include <jose/b64.h>
#include "hooks.h"
#include "hx_io.h"
#include <jose/jwe.h>

/* ---- probe sink: records every call, fails on call number fail_at ---- */
typedef struct {
    jose_io_t io;
    long long fail_at;
    long long calls;
    json_t *log;
} probe_t;

static bool
probe_feed(jose_io_t *io, const void *in, size_t len)
{
    probe_t *p = (probe_t *) io;
    char *hex;
    json_t *h = hx_hex(in, len);
    size_t n = json_string_length(h);
    hex = malloc(n + 3);
    memcpy(hex, "f:", 2);
    memcpy(hex + 2, json_string_value(h), n + 1);
    json_array_append_new(p->log, json_string(hex));
    free(hex);
    json_decref(h);
    return p->calls++ != p->fail_at;
}

static bool
probe_done(jose_io_t *io)
{
    probe_t *p = (probe_t *) io;
    json_array_append_new(p->log, json_string("d"));
    return p->calls++ != p->fail_at;
}

static void
probe_free(jose_io_t *io)
{
    probe_t *p = (probe_t *) io;
    json_decref(p->log);
    free(p);
}

jose_io_t *
hx_probe(long long fail_at)
{
    probe_t *p = calloc(1, sizeof(*p));
    p->io.feed = probe_feed;
    p->io.done = probe_done;
    p->io.free = probe_free;
    p->fail_at = fail_at;
    p->log = json_array();
    return jose_io_incref(&p->io);
}

json_t *
hx_probe_log(jose_io_t *io)
{
    return json_incref(((probe_t *) io)->log);
}

/* ---- leaves ---- */
void
hx_leaves_free(hx_leaves_t *L)
{
    for (size_t i = 0; i < L->n; i++) {
        hx_leaf_t *l = &L->l[i];
        jose_io_decref(l->io);
        if (l->kind == LEAF_SINK) {
            /* the sink's free() released the buffer when it held the last reference */
        } else if (l->kind == LEAF_BUFFER) {
            free(l->raw);
        } else if (l->kind == LEAF_FILE) {
            if (l->file)
                fclose(l->file);
        }
    }
    for (size_t i = 0; i < L->nios; i++)
        jose_io_decref(L->ios[i]);
    L->n = 0;
    L->nios = 0;
}

static jose_io_t *
keep(hx_leaves_t *L, jose_io_t *io)
{
    if (io && L->nios < HX_MAX_LEAVES * 4)
        L->ios[L->nios++] = jose_io_incref(io);
    return io;
}

json_t *
hx_leaves_report(hx_leaves_t *L)
{
    json_t *out = json_array();
    for (size_t i = 0; i < L->n; i++) {
        hx_leaf_t *l = &L->l[i];
        json_t *o = json_object();
        switch (l->kind) {
        case LEAF_SINK:
            json_object_set_new(o, "k", json_string("sink"));
            json_object_set_new(o, "data", hx_hex(l->buf ? l->buf : "", l->buf ? l->len : 0));
            break;
        case LEAF_BUFFER: {
            bool ok = true;
            for (size_t j = 0; j < CANARY; j++)
                if (l->raw[j] != CANARY_BYTE || l->raw[CANARY + l->cap + j] != CANARY_BYTE)
                    ok = false;
            json_object_set_new(o, "k", json_string("buffer"));
            json_object_set_new(o, "canary", json_boolean(ok && l->len <= l->cap));
            json_object_set_new(o, "data", hx_hex(l->raw + CANARY, l->len <= l->cap ? l->len : 0));
            break;
        }
        case LEAF_PROBE:
            json_object_set_new(o, "k", json_string("probe"));
            json_object_set_new(o, "log", hx_probe_log(l->io));
            break;
        case LEAF_FILE: {
            long n;
            char *b;
            fflush(l->file);
            n = ftell(l->file);
            b = malloc(n > 0 ? n : 1);
            rewind(l->file);
            n = fread(b, 1, n > 0 ? n : 0, l->file);
            json_object_set_new(o, "k", json_string("sink"));
            json_object_set_new(o, "data", hx_hex(b, n));
            free(b);
            break;
        }
        }
        json_array_append_new(out, o);
    }
    return out;
}

/* ---- chain builder ----  desc: ["malloc"] | ["file"] | ["buffer",cap] | ["probe",failAt|null]
 *   | ["b64enc",next] | ["b64dec",next] | ["hash",name,next] | ["deflate",next] | ["inflate",next]
 *   | ["plex",all,[next...]] | ["jwedec",{jwe,cek},next]
 * Returns a new reference (NULL if a constructor refused). */
jose_io_t *
hx_build_chain(json_t *d, hx_leaves_t *L)
{
    const char *k = json_string_value(json_array_get(d, 0));
    if (!k)
        return NULL;
    if (strcmp(k, "malloc") == 0 || strcmp(k, "file") == 0 || strcmp(k, "buffer") == 0 ||
        strcmp(k, "probe") == 0) {
        hx_leaf_t *l;
        if (L->n >= HX_MAX_LEAVES)
            return NULL;
        l = &L->l[L->n++];
        memset(l, 0, sizeof(*l));
        if (strcmp(k, "malloc") == 0) {
            l->kind = LEAF_SINK;
            l->io = jose_io_malloc(NULL, &l->buf, &l->len);
        } else if (strcmp(k, "file") == 0) {
            l->kind = LEAF_FILE;
            l->file = tmpfile();
            l->io = jose_io_file(NULL, l->file);
        } else if (strcmp(k, "buffer") == 0) {
            l->kind = LEAF_BUFFER;
            l->cap = (size_t) json_integer_value(json_array_get(d, 1));
            l->raw = malloc(l->cap + 2 * CANARY);
            memset(l->raw, CANARY_BYTE, l->cap + 2 * CANARY);
            l->len = l->cap;
            l->io = jose_io_buffer(NULL, l->raw + CANARY, &l->len);
        } else {
            json_t *fa = json_array_get(d, 1);
            l->kind = LEAF_PROBE;
            l->io = hx_probe(json_is_integer(fa) ? json_integer_value(fa) : -1);
        }
        return jose_io_incref(l->io);
    }
    if (strcmp(k, "plex") == 0) {
        json_t *subs = json_array_get(d, 2);
        size_t n = json_array_size(subs);
        jose_io_t **nexts = calloc(n + 1, sizeof(*nexts));
        jose_io_t *io = NULL;
        bool ok = true;
        for (size_t i = 0; i < n; i++) {
            nexts[i] = hx_build_chain(json_array_get(subs, i), L);
            if (!nexts[i]) {
                ok = false;
                break;
            }
        }
        if (ok)
            io = keep(L, jose_io_multiplex(NULL, nexts, json_is_true(json_array_get(d, 1))));
        for (size_t i = 0; i < n; i++)
            jose_io_decref(nexts[i]);
        free(nexts);
        return io;
    }
    {
        json_t *nd = json_array_get(d, json_array_size(d) - 1);
        jose_io_t *next = hx_build_chain(nd, L);
        jose_io_t *io = NULL;
        if (!next)
            return NULL;
        if (strcmp(k, "b64enc") == 0)
            io = jose_b64_enc_io(next);
        else if (strcmp(k, "b64dec") == 0)
            io = jose_b64_dec_io(next);
        else if (strcmp(k, "hash") == 0) {
            const jose_hook_alg_t *a = jose_hook_alg_find(JOSE_HOOK_ALG_KIND_HASH,
                                                          json_string_value(json_array_get(d, 1)));
            io = a ? a->hash.hsh(a, NULL, next) : NULL;
        } else if (strcmp(k, "deflate") == 0 || strcmp(k, "inflate") == 0) {
            const jose_hook_alg_t *a = jose_hook_alg_find(JOSE_HOOK_ALG_KIND_COMP, "DEF");
            if (a)
                io = k[0] == 'd' ? a->comp.def(a, NULL, next) : a->comp.inf(a, NULL, next);
        } else if (strcmp(k, "jwedec") == 0) {
            /* ["jwedec", {jwe, cek}, next]: the content-decryption stream in front of any downstream chain */
            json_t *a = json_array_get(d, 1);
            io = jose_jwe_dec_cek_io(NULL, json_object_get(a, "jwe"), json_object_get(a, "cek"), next);
        }
        jose_io_decref(next);
        return keep(L, io);
    }
}

json_t *
hx_run_chain(jose_io_t *io, json_t *feeds, hx_leaves_t *L)
{
    json_t *res = json_object();
    json_t *fv = json_array();
    bool ok = true;
    size_t i;
    json_t *f;

    json_array_foreach(feeds, i, f) {
        size_t len = 0;
        uint8_t *b = hx_unhex(json_string_value(f), &len);
        /* exact-size heap copy: any over-read is an ASan report */
        uint8_t *e = malloc(len ? len : 1);
        memcpy(e, b, len);
        ok = io->feed(io, e, len);
        free(e);
        free(b);
        json_array_append_new(fv, json_boolean(ok));
        if (!ok)
            break;
    }
    json_object_set_new(res, "feeds", fv);
    if (ok)
        json_object_set_new(res, "done", json_boolean(io->done(io)));
    else
        json_object_set_new(res, "done", json_null());
    json_object_set_new(res, "leaves", hx_leaves_report(L));
    return res;
}

static json_t *
op_run(json_t *args)
{
    hx_leaves_t L = { 0 };
    jose_io_t *io = hx_build_chain(json_object_get(args, "chain"), &L);
    json_t *res;
    if (!io) {
        hx_leaves_free(&L);
        return json_pack("{s:b}", "nochain", 1);
    }
    res = hx_run_chain(io, json_object_get(args, "feeds"), &L);
    jose_io_decref(io);
    hx_leaves_free(&L);
    return res;
}

const op_t ops_io[] = {
    { "io.run", op_run },
    { NULL, NULL }
};
