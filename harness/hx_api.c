/* cli.run: run a `jose` subcommand (the working tree's cmd/ objects, main renamed) in a forked
 * child with its own working directory, stdin, stdout; report exit status, stdout, files written. */
#include "hx.h"
#include <dirent.h>
#include <errno.h>
#include <fcntl.h>
#include <sys/stat.h>
#include <sys/types.h>
#include <sys/wait.h>
#include <unistd.h>

int jose_cli_main(int argc, char *argv[]);

static void
rm_rf(const char *dir)
{
    DIR *d = opendir(dir);
    struct dirent *e;
    char path[4096];
    if (!d)
        return;
    while ((e = readdir(d))) {
        if (strcmp(e->d_name, ".") == 0 || strcmp(e->d_name, "..") == 0)
            continue;
        snprintf(path, sizeof(path), "%s/%s", dir, e->d_name);
        unlink(path);
    }
    closedir(d);
    rmdir(dir);
}

static json_t *
read_file_hex(const char *path)
{
    FILE *f = fopen(path, "rb");
    uint8_t *buf = NULL;
    size_t len = 0, cap = 0;
    json_t *r;
    if (!f)
        return json_null();
    for (;;) {
        size_t n;
        if (len + 65536 > cap) {
            cap = cap ? cap * 2 : 131072;
            buf = realloc(buf, cap);
        }
        n = fread(buf + len, 1, 65536, f);
        len += n;
        if (n == 0)
            break;
    }
    fclose(f);
    r = hx_hex(buf ? buf : (uint8_t *) "", len);
    free(buf);
    return r;
}

/* cli.run {argv:[..], stdin: hex?, files: {name: hex}} */
static json_t *
op_cli_run(json_t *args)
{
    json_t *argvj = hx_arg(args, "argv");
    json_t *files = hx_arg(args, "files");
    char tmpl[] = "/var/tmp/hxcli.XXXXXX";
    char *dir = mkdtemp(tmpl);
    char path[4096];
    json_t *res = json_object();
    const char *name;
    json_t *v;
    pid_t pid;
    int status = 0;

    if (!dir)
        return json_pack("{s:s}", "error", "mkdtemp");
    json_object_foreach(files, name, v) {
        size_t len = 0;
        uint8_t *b = hx_unhex(json_string_value(v), &len);
        FILE *f;
        snprintf(path, sizeof(path), "%s/%s", dir, name);
        f = fopen(path, "wb");
        if (f) {
            fwrite(b, 1, len, f);
            fclose(f);
        }
        free(b);
    }
    {
        size_t len = 0;
        uint8_t *b = hx_arg_hex(args, "stdin", &len);
        FILE *f;
        snprintf(path, sizeof(path), "%s/.stdin", dir);
        f = fopen(path, "wb");
        if (f) {
            if (b)
                fwrite(b, 1, len, f);
            fclose(f);
        }
        free(b);
    }
    /* "rand": the child inherits the RAND_bytes tape (jwe enc: CEK, IVs, salts become predictable) */
    if (json_object_get(args, "rand"))
        hx_tape_set(args);
    fflush(stdout);
    pid = fork();
    if (pid == 0) {
        size_t n = json_array_size(argvj);
        char **av = calloc(n + 2, sizeof(char *));
        int fd;
        if (chdir(dir) != 0)
            _exit(250);
        /* the FILE object inherited from the harness still buffers the harness's own input */
        if (!freopen(".stdin", "rb", stdin))
            _exit(251);
        fd = open(".stdout", O_WRONLY | O_CREAT | O_TRUNC, 0600);
        dup2(fd, 1);
        fd = open(".stderr", O_WRONLY | O_CREAT | O_TRUNC, 0600);
        dup2(fd, 2);
        av[0] = "jose";
        for (size_t i = 0; i < n; i++)
            av[i + 1] = (char *) json_string_value(json_array_get(argvj, i));
        {
            int rc = jose_cli_main((int) n + 1, av);
            fflush(stdout);
            _exit(rc & 0xff);
        }
    }
    waitpid(pid, &status, 0);
    if (json_object_get(args, "rand"))
        hx_tape_clear();
    if (WIFEXITED(status))
        json_object_set_new(res, "status", json_integer(WEXITSTATUS(status)));
    else
        json_object_set_new(res, "crash", json_sprintf("signal %d", WTERMSIG(status)));
    snprintf(path, sizeof(path), "%s/.stdout", dir);
    json_object_set_new(res, "stdout", read_file_hex(path));
    {
        /* sanitizer reports of the child */
        FILE *f;
        char line[512];
        snprintf(path, sizeof(path), "%s/.stderr", dir);
        f = fopen(path, "r");
        while (f && fgets(line, sizeof(line), f)) {
            if (strstr(line, "Sanitizer") || strstr(line, "runtime error")) {
                line[strcspn(line, "\n")] = 0;
                json_object_set_new(res, "crash", json_string(line));
                break;
            }
        }
        if (f)
            fclose(f);
    }
    {
        json_t *out = json_object();
        DIR *d = opendir(dir);
        struct dirent *e;
        while (d && (e = readdir(d))) {
            if (e->d_name[0] == '.')
                continue;
            if (json_object_get(files, e->d_name) && !json_is_true(json_object_get(args, "report_inputs")))
                continue;
            snprintf(path, sizeof(path), "%s/%s", dir, e->d_name);
            json_object_set_new(out, e->d_name, read_file_hex(path));
        }
        if (d)
            closedir(d);
        json_object_set_new(res, "files", out);
    }
    {
        char p2[4096];
        snprintf(p2, sizeof(p2), "%s/.stdin", dir); unlink(p2);
        snprintf(p2, sizeof(p2), "%s/.stdout", dir); unlink(p2);
        snprintf(p2, sizeof(p2), "%s/.stderr", dir); unlink(p2);
    }
    rm_rf(dir);
    return res;
}

const op_t ops_api[] = {
    { "cli.run", op_cli_run },
    { NULL, NULL }
};
