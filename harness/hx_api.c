#include "hx.h"
const op_t ops_api[] = { { NULL, NULL } };
