#include "hx.h"
const op_t ops_misc[] = { { NULL, NULL } };
