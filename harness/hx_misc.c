/* misc.* : internal (non-static) helpers of the library, reached by linking its objects */
#include "hx.h"
#include <jose/jws.h>
#include <jose/jwe.h>
#include "misc.h"

/* lib/openssl/misc.h is not included (name clash with lib/misc.h); prototypes repeated */
bool add_entity(json_t *root, json_t *obj, const char *plural, ...);

static json_t *
op_add_entity(json_t *args)
{
    json_t *root = json_deep_copy(hx_arg(args, "root"));
    json_t *obj = json_deep_copy(hx_arg(args, "obj"));
    const char *plural = hx_arg_str(args, "plural");
    json_t *keys = hx_arg(args, "keys");
    const char *k[4] = { NULL, NULL, NULL, NULL };
    bool ok;
    json_t *res;

    for (size_t i = 0; i < json_array_size(keys) && i < 3; i++)
        k[i] = json_string_value(json_array_get(keys, i));
    ok = add_entity(root, obj, plural, k[0], k[1], k[2], NULL);
    res = json_pack("{s:b}", "ok", ok);
    if (ok)
        json_object_set(res, "root", root);
    json_decref(root);
    json_decref(obj);
    return res;
}

/* a history of additions on one object: the object after every step (null after a refused step,
 * which leaves the object as it was for the next step) */
static json_t *
op_entity_hist(json_t *args)
{
    json_t *root = json_deep_copy(hx_arg(args, "start"));
    json_t *objs = hx_arg(args, "objs");
    const char *plural = hx_arg_str(args, "plural");
    json_t *keys = hx_arg(args, "keys");
    const char *k[4] = { NULL, NULL, NULL, NULL };
    json_t *out = json_array();
    size_t i;
    json_t *o;

    for (size_t j = 0; j < json_array_size(keys) && j < 3; j++)
        k[j] = json_string_value(json_array_get(keys, j));
    json_array_foreach(objs, i, o) {
        json_t *before = json_deep_copy(root);
        json_t *oc = json_deep_copy(o);
        if (add_entity(root, oc, plural, k[0], k[1], k[2], NULL)) {
            json_array_append_new(out, json_deep_copy(root));
            json_decref(before);
        } else {
            json_array_append_new(out, json_null());
            json_decref(root);
            root = before;
        }
        json_decref(oc);
    }
    json_decref(root);
    return json_pack("{s:o}", "steps", out);
}

static json_t *
op_encode_protected(json_t *args)
{
    json_t *obj = json_deep_copy(hx_arg(args, "obj"));
    bool ok = encode_protected(obj);
    json_t *res = json_pack("{s:b}", "ok", ok);
    if (ok)
        json_object_set(res, "obj", obj);
    json_decref(obj);
    return res;
}

static json_t *
op_jws_hdr(json_t *args)
{
    return hx_opt(jose_jws_hdr(hx_arg(args, "sig")));
}

static json_t *
op_jwe_hdr(json_t *args)
{
    return hx_opt(jose_jwe_hdr(hx_arg(args, "jwe"), hx_arg(args, "rcp")));
}

const op_t ops_misc[] = {
    { "misc.add_entity", op_add_entity },
    { "misc.entity_hist", op_entity_hist },
    { "misc.encode_protected", op_encode_protected },
    { "jws.hdr", op_jws_hdr },
    { "jwe.hdr", op_jwe_hdr },
    { NULL, NULL }
};
