#include "hx.h"
const op_t ops_jwe[] = { { NULL, NULL } };
