/* jwe.* operations: lib/jwe.c through the public API, with a RAND_bytes tape */
#include "hx.h"
#include <jose/jwe.h>
#include <jose/jwk.h>
#include <jose/io.h>
#include <jose/b64.h>
#include <openssl/rand.h>
#include <dlfcn.h>

/* ---- RAND_bytes tape: the library's calls to RAND_bytes resolve to this definition ---- */
static __thread uint8_t *tape = NULL;
static __thread size_t tape_len = 0, tape_pos = 0;
static __thread size_t hx_rand_calls = 0;
static __thread long hx_rand_fail = -1;
__thread size_t hx_rand_last_calls = 0;               /* requests made during the last taped operation */      /* "rand_fail": k — the k-th call (from 0) reports failure (returns 0, writes nothing) */

int
RAND_bytes(unsigned char *buf, int num)
{
    if (hx_rand_fail >= 0 && (long) hx_rand_calls == hx_rand_fail) {
        hx_rand_calls++;
        return 0;
    }
    hx_rand_calls++;
    if (tape && num >= 0 && tape_pos + (size_t) num <= tape_len) {
        memcpy(buf, tape + tape_pos, num);
        tape_pos += num;
        return 1;
    }
    return RAND_priv_bytes(buf, num);
}

void
hx_tape_set(json_t *args)
{
    free(tape);
    tape = hx_arg_hex(args, "rand", &tape_len);
    tape_pos = 0;
    hx_rand_calls = 0;
    hx_rand_fail = json_is_integer(json_object_get(args, "rand_fail")) ? (long) json_integer_value(json_object_get(args, "rand_fail")) : -1;
}

void
hx_tape_clear(void)
{
    free(tape);
    tape = NULL;
    tape_len = tape_pos = 0;
    hx_rand_fail = -1;
    hx_rand_last_calls = hx_rand_calls;
}

static json_t *
op_enc_jwk(json_t *args)
{
    json_t *jwe = json_deep_copy(hx_arg(args, "jwe"));
    json_t *rcp = hx_tmpl(args, "rcp");
    json_t *cek = json_deep_copy(hx_arg(args, "cek"));
    bool ok;
    json_t *res;
    hx_tape_set(args);
    ok = jose_jwe_enc_jwk(NULL, jwe, rcp, hx_arg(args, "jwk"), cek);
    hx_tape_clear();
    res = json_pack("{s:b}", "ok", ok);
    if (!hx_tmpl_refs_ok(rcp, jwe, "recipients"))
        json_object_set_new(res, "refs_changed", json_true());
    if (ok) {
        json_object_set(res, "jwe", jwe);
        json_object_set(res, "cek", cek);
    }
    json_decref(jwe);
    json_decref(rcp);
    json_decref(cek);
    return res;
}

static json_t *
op_enc_cek(json_t *args)
{
    json_t *jwe = json_deep_copy(hx_arg(args, "jwe"));
    size_t ptl = 0;
    uint8_t *pt = hx_arg_hex(args, "pt", &ptl);
    bool ok;
    json_t *res;
    hx_tape_set(args);
    ok = jose_jwe_enc_cek(NULL, jwe, hx_arg(args, "cek"), pt ? pt : (uint8_t *) "", ptl);
    hx_tape_clear();
    res = json_pack("{s:b}", "ok", ok);
    if (ok)
        json_object_set(res, "jwe", jwe);
    json_decref(jwe);
    free(pt);
    return res;
}

static json_t *
op_enc(json_t *args)
{
    json_t *jwe = json_deep_copy(hx_arg(args, "jwe"));
    json_t *rcp = hx_tmpl(args, "rcp");
    size_t ptl = 0;
    uint8_t *pt = hx_arg_hex(args, "pt", &ptl);
    bool ok;
    json_t *res;
    hx_tape_set(args);
    ok = jose_jwe_enc(NULL, jwe, rcp, hx_arg(args, "jwk"), pt ? pt : (uint8_t *) "", ptl);
    hx_tape_clear();
    res = json_pack("{s:b}", "ok", ok);
    if (!hx_tmpl_refs_ok(rcp, jwe, "recipients"))
        json_object_set_new(res, "refs_changed", json_true());
    if (ok)
        json_object_set(res, "jwe", jwe);
    json_decref(jwe);
    json_decref(rcp);
    free(pt);
    return res;
}

/* jwe.enc_cek_io {jwe, cek, feeds, rand}: streamed encryption; ciphertext collected by a malloc sink */
static json_t *
op_enc_cek_io(json_t *args)
{
    json_t *jwe = json_deep_copy(hx_arg(args, "jwe"));
    json_t *feeds = hx_arg(args, "feeds");
    void *ct = NULL;
    size_t ctl = 0;
    jose_io_t *o = jose_io_malloc(NULL, &ct, &ctl);
    jose_io_t *io;
    bool ok;
    json_t *res;
    size_t i;
    json_t *f;
    hx_tape_set(args);
    io = jose_jwe_enc_cek_io(NULL, jwe, hx_arg(args, "cek"), o);
    ok = io != NULL;
    if (io) {
        json_array_foreach(feeds, i, f) {
            size_t len = 0;
            uint8_t *b = hx_unhex(json_string_value(f), &len);
            ok = io->feed(io, b, len);
            free(b);
            if (!ok)
                break;
        }
        ok = ok && io->done(io);
    }
    hx_tape_clear();
    if (ok && json_object_set_new(jwe, "ciphertext", jose_b64_enc(ct ? ct : "", ctl)) < 0)
        ok = false;     /* the caller of the streaming API checks what it builds itself */
    res = json_pack("{s:b}", "ok", ok);
    if (ok)
        json_object_set(res, "jwe", jwe);
    jose_io_decref(io);
    jose_io_decref(o);
    json_decref(jwe);
    return res;
}

/* jwe.enc_io {jwe, rcp?, jwk, feeds, rand}: jose_jwe_enc_io over a malloc sink */
static json_t *
op_enc_io(json_t *args)
{
    json_t *jwe = json_deep_copy(hx_arg(args, "jwe"));
    json_t *rcp = json_deep_copy(hx_arg(args, "rcp"));
    json_t *feeds = hx_arg(args, "feeds");
    void *ct = NULL;
    size_t ctl = 0;
    jose_io_t *o = jose_io_malloc(NULL, &ct, &ctl);
    jose_io_t *io;
    bool ok;
    json_t *res;
    size_t i;
    json_t *f;
    hx_tape_set(args);
    io = jose_jwe_enc_io(NULL, jwe, rcp, hx_arg(args, "jwk"), o);
    ok = io != NULL;
    if (io) {
        json_array_foreach(feeds, i, f) {
            size_t len = 0;
            uint8_t *b = hx_unhex(json_string_value(f), &len);
            ok = io->feed(io, b, len);
            free(b);
            if (!ok)
                break;
        }
        ok = ok && io->done(io);
    }
    hx_tape_clear();
    if (ok && json_object_set_new(jwe, "ciphertext", jose_b64_enc(ct ? ct : "", ctl)) < 0)
        ok = false;
    res = json_pack("{s:b}", "ok", ok);
    if (ok)
        json_object_set(res, "jwe", jwe);
    jose_io_decref(io);
    jose_io_decref(o);
    json_decref(jwe);
    json_decref(rcp);
    return res;
}

/* jwe.dec_io {jwe, rcp?, jwk, feeds (raw ciphertext bytes), rand}: jose_jwe_dec_io over a malloc sink */
static json_t *
op_dec_io(json_t *args)
{
    json_t *feeds = hx_arg(args, "feeds");
    void *pt = NULL;
    size_t ptl = 0;
    jose_io_t *o = jose_io_malloc(NULL, &pt, &ptl);
    jose_io_t *io;
    bool ok;
    json_t *res;
    size_t i;
    json_t *f;
    hx_tape_set(args);
    io = jose_jwe_dec_io(NULL, hx_arg(args, "jwe"), hx_arg(args, "rcp"), hx_arg(args, "jwk"), o);
    ok = io != NULL;
    if (io) {
        json_array_foreach(feeds, i, f) {
            size_t len = 0;
            uint8_t *b = hx_unhex(json_string_value(f), &len);
            ok = io->feed(io, b, len);
            free(b);
            if (!ok)
                break;
        }
        ok = ok && io->done(io);
    }
    hx_tape_clear();
    res = json_pack("{s:b}", "ok", ok);
    if (ok)
        json_object_set_new(res, "pt", hx_hex(pt ? pt : "", ptl));
    jose_io_decref(io);
    jose_io_decref(o);
    return res;
}

static json_t *
op_dec_jwk(json_t *args)
{
    json_t *r;
    hx_tape_set(args);
    r = hx_opt(jose_jwe_dec_jwk(NULL, hx_arg(args, "jwe"), hx_arg(args, "rcp"), hx_arg(args, "jwk")));
    hx_tape_clear();
    return r;
}

static json_t *
op_dec_cek(json_t *args)
{
    size_t ptl = 0;
    void *pt = jose_jwe_dec_cek(NULL, hx_arg(args, "jwe"), hx_arg(args, "cek"), &ptl);
    json_t *res = json_pack("{s:b}", "ok", pt != NULL);
    if (pt) {
        json_object_set_new(res, "pt", hx_hex(pt, ptl));
        free(pt);
    }
    return res;
}

static json_t *
op_dec(json_t *args)
{
    size_t ptl = 0;
    void *pt;
    json_t *res;
    hx_tape_set(args);
    pt = jose_jwe_dec(NULL, hx_arg(args, "jwe"), hx_arg(args, "rcp"), hx_arg(args, "jwk"), &ptl);
    hx_tape_clear();
    res = json_pack("{s:b}", "ok", pt != NULL);
    if (pt) {
        json_object_set_new(res, "pt", hx_hex(pt, ptl));
        free(pt);
    }
    return res;
}

/* jwe.dec_cek_io {jwe, cek, feeds}: the raw ciphertext bytes are streamed in the given chunks */
static json_t *
op_dec_cek_io(json_t *args)
{
    json_t *feeds = hx_arg(args, "feeds");
    void *pt = NULL;
    size_t ptl = 0;
    jose_io_t *o = jose_io_malloc(NULL, &pt, &ptl);
    jose_io_t *io = jose_jwe_dec_cek_io(NULL, hx_arg(args, "jwe"), hx_arg(args, "cek"), o);
    bool ok = io != NULL;
    json_t *res;
    size_t i;
    json_t *f;
    if (io) {
        json_array_foreach(feeds, i, f) {
            size_t len = 0;
            uint8_t *b = hx_unhex(json_string_value(f), &len);
            ok = io->feed(io, b, len);
            free(b);
            if (!ok)
                break;
        }
        ok = ok && io->done(io);
    }
    res = json_pack("{s:b}", "ok", ok);
    if (ok)
        json_object_set_new(res, "pt", hx_hex(pt ? pt : "", ptl));
    jose_io_decref(io);
    jose_io_decref(o);
    return res;
}

/* jwk.gen {jwk, rand} */
static json_t *
op_gen(json_t *args)
{
    json_t *jwk = json_deep_copy(hx_arg(args, "jwk"));
    bool ok;
    json_t *res;
    hx_tape_set(args);
    ok = jose_jwk_gen(NULL, jwk);
    res = json_pack("{s:b,s:I}", "ok", ok, "rand_calls", (json_int_t) hx_rand_calls);
    hx_tape_clear();
    if (ok && jwk)
        json_object_set(res, "jwk", jwk);
    json_decref(jwk);
    return res;
}

static json_t *
op_exc(json_t *args)
{
    return hx_opt(jose_jwk_exc(NULL, hx_arg(args, "prv"), hx_arg(args, "pub")));
}

const op_t ops_jwe[] = {
    { "jwe.enc_jwk", op_enc_jwk },
    { "jwe.enc_cek", op_enc_cek },
    { "jwe.enc_cek_io", op_enc_cek_io },
    { "jwe.enc", op_enc },
    { "jwe.dec_jwk", op_dec_jwk },
    { "jwe.dec_cek", op_dec_cek },
    { "jwe.dec_cek_io", op_dec_cek_io },
    { "jwe.enc_io", op_enc_io },
    { "jwe.dec_io", op_dec_io },
    { "jwe.dec", op_dec },
    { "jwk.gen", op_gen },
    { "jwk.exc", op_exc },
    { NULL, NULL }
};
