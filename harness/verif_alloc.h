/* Force-included into every object of the library in the "alloc" build kind (see tools/build_repo.py):
 * the library's own malloc family is redirected to a counting allocator that can be told to fail
 * its k-th request.  Nothing in /repo is edited for this. */
#pragma once
#include <stddef.h>
void *verif_malloc(size_t n);
void *verif_calloc(size_t a, size_t b);
void *verif_realloc(void *p, size_t n);
char *verif_strdup(const char *s);
