#pragma once
#include <jose/io.h>
#include <stdio.h>
#define HX_MAX_LEAVES 64
typedef enum { LEAF_SINK, LEAF_BUFFER, LEAF_PROBE, LEAF_FILE } leaf_kind_t;
typedef struct {
    leaf_kind_t kind;
    jose_io_t *io;
    void *buf;       /* malloc sink */
    size_t len;
    uint8_t *raw;    /* buffer sink incl. canaries */
    size_t cap;
    FILE *file;
} hx_leaf_t;
typedef struct {
    hx_leaf_t l[HX_MAX_LEAVES];
    size_t n;
    jose_io_t *ios[HX_MAX_LEAVES * 4];   /* inner stages, kept alive until the report */
    size_t nios;
} hx_leaves_t;
jose_io_t *hx_probe(long long fail_at);
json_t *hx_probe_log(jose_io_t *io);
jose_io_t *hx_build_chain(json_t *desc, hx_leaves_t *L);
json_t *hx_run_chain(jose_io_t *io, json_t *feeds, hx_leaves_t *L);
json_t *hx_leaves_report(hx_leaves_t *L);
void hx_leaves_free(hx_leaves_t *L);
