/* Correspondence harness, real side: executes one operation per input line
 * against the library objects built from /repo's current working tree.
 *
 *   input  line:  <op> <json-args>
 *   output line:  <canonical json result>     (JSON_COMPACT|JSON_SORT_KEYS)
 *
 * The Lean driver (lean/Main.lean) answers the same lines from the model. */
#include "hx.h"
#include <errno.h>
#include <signal.h>
#include <sys/time.h>
#include <time.h>
#include <unistd.h>

/* "_limit_ms": N in the arguments arms a watchdog: an operation that is still running after N ms
 * ends the process with status 97, which the orchestrator reports as {"timeout":true} for that line
 * (C14: hostile parameters must not buy unbounded work) */
static void
on_alarm(int sig)
{
    (void) sig;
    _exit(97);
}

/* "_leakcheck": true: the operation is executed twice more with its results discarded (first to warm
 * up lazily initialised library state, then measured): heap bytes allocated before and after the
 * measured run must be equal once the result has been released (C09: nothing the library allocated
 * for the call survives it, on success and on every failure path) */
#if defined(__SANITIZE_ADDRESS__)
extern size_t __sanitizer_get_current_allocated_bytes(void);
#define HX_HEAP_BYTES() __sanitizer_get_current_allocated_bytes()
#else
#define HX_HEAP_BYTES() ((size_t) 0)
#endif
#include <openssl/err.h>

static double
now_ms(void)
{
    struct timespec ts;
    clock_gettime(CLOCK_MONOTONIC, &ts);
    return ts.tv_sec * 1000.0 + ts.tv_nsec / 1e6;
}

static int
hexval(char c)
{
    if (c >= '0' && c <= '9') return c - '0';
    if (c >= 'a' && c <= 'f') return c - 'a' + 10;
    if (c >= 'A' && c <= 'F') return c - 'A' + 10;
    return 0;
}

uint8_t *
hx_unhex(const char *hex, size_t *len)
{
    size_t n = strlen(hex) / 2;
    uint8_t *out = malloc(n ? n : 1);
    for (size_t i = 0; i < n; i++)
        out[i] = (uint8_t) (hexval(hex[2 * i]) << 4 | hexval(hex[2 * i + 1]));
    *len = n;
    return out;
}

json_t *
hx_hex(const void *buf, size_t len)
{
    static const char *d = "0123456789abcdef";
    const uint8_t *b = buf;
    char *s = malloc(len * 2 + 1);
    for (size_t i = 0; i < len; i++) {
        s[2 * i] = d[b[i] >> 4];
        s[2 * i + 1] = d[b[i] & 15];
    }
    s[len * 2] = 0;
    json_t *j = json_stringn(s, len * 2);
    free(s);
    return j;
}

uint8_t *
hx_arg_hex(json_t *args, const char *key, size_t *len)
{
    json_t *v = json_object_get(args, key);
    if (!json_is_string(v))
        return NULL;
    return hx_unhex(json_string_value(v), len);
}

json_t *
hx_size(size_t v)
{
    if (v == SIZE_MAX)
        return json_string("max");
    return json_integer((json_int_t) v);
}

json_t *
hx_opt(json_t *v)
{
    if (!v)
        return json_pack("{s:b}", "nil", 1);
    return json_pack("{s:o}", "v", v);
}

json_t *
hx_arg(json_t *args, const char *key)
{
    return json_object_get(args, key);
}

long long
hx_arg_int(json_t *args, const char *key, long long dflt)
{
    json_t *v = json_object_get(args, key);
    return json_is_integer(v) ? json_integer_value(v) : dflt;
}

bool
hx_arg_bool(json_t *args, const char *key, bool dflt)
{
    json_t *v = json_object_get(args, key);
    return json_is_boolean(v) ? json_is_true(v) : dflt;
}

const char *
hx_arg_str(json_t *args, const char *key)
{
    return json_string_value(json_object_get(args, key));
}

/* sum of the reference counts of every node of a JSON value (jansson keeps it in json_t.refcount) */
size_t
hx_refsum(json_t *j)
{
    size_t n = j ? j->refcount : 0;
    const char *k;
    json_t *v;
    size_t i;
    if (json_is_object(j))
        json_object_foreach(j, k, v)
            n += hx_refsum(v);
    else if (json_is_array(j))
        json_array_foreach(j, i, v)
            n += hx_refsum(v);
    return n;
}

/* template argument of a producing call: when several keys share one object template the library
 * must only read it (C17), so the caller's own object is handed over and the main loop's argument
 * check sees any modification; in every other case the call may complete the template, so it gets
 * a copy */
json_t *
hx_tmpl(json_t *args, const char *key)
{
    json_t *t = hx_arg(args, key), *jwk = hx_arg(args, "jwk");
    bool multi = json_is_array(jwk) || json_is_array(json_object_get(jwk, "keys"));
    if (multi && json_is_object(t))
        return json_incref(t);
    return json_deep_copy(t);
}

/* per-key templates (an array): after the call every template must be referenced exactly by the caller's array
 * and by the places of `owner`'s list `plural` that hold it (the library adds the completed template itself to the
 * object); anything else means the library dropped or kept a reference it does not own (C09) */
bool
hx_tmpl_refs_ok(json_t *tmpl, json_t *owner, const char *plural)
{
    size_t i, j;
    json_t *e, *h;
    if (!json_is_array(tmpl))
        return true;
    json_array_foreach(tmpl, i, e) {
        size_t holders = 1;
        json_t *list = json_object_get(owner, plural);
        if (!json_is_object(e))       /* true / false / null are immortal singletons; other scalars are refused as templates */
            continue;
        if (owner == e)
            holders++;
        json_array_foreach(list, j, h)
            if (h == e)
                holders++;
        if (e->refcount != holders)
            return false;
    }
    return true;
}

static const op_t *const tables[] = {
    ops_tables, ops_b64, ops_io, ops_jwk, ops_misc, ops_jws, ops_jwe, ops_api, ops_cfg, ops_glob,
#ifdef HX_ALLOC
    ops_alloc,
#endif
    NULL
};

op_fn
hx_find_op(const char *name)
{
    for (size_t t = 0; tables[t]; t++)
        for (const op_t *o = tables[t]; o->name; o++)
            if (strcmp(o->name, name) == 0)
                return o->fn;
    return NULL;
}

/* one line of the protocol -> its result line (malloc'd) */
static char *
hx_process(char *line)
{
    char *sp;
    json_t *args, *res;
    json_error_t err;
    op_fn fn;
    char *txt;
    json_t *before;
    size_t rc_before;
    bool mutated, refs;
    long long leaked = 0;

    sp = strchr(line, ' ');
    if (sp)
        *sp++ = 0;
    fn = hx_find_op(line);
    if (!fn)
        return strdup("{\"error\":\"unknown-op\"}");
    args = json_loads(sp ? sp : "{}", JSON_ALLOW_NUL | JSON_DECODE_ANY, &err);
    if (!args)
        return strdup("{\"error\":\"bad-args\"}");
    /* C17 / C09: no operation may change the JSON values it is handed (mutating operations
     * work on copies made by the op itself), and once the result has been released the
     * reference counts of all argument nodes must be what they were */
    before = json_deep_copy(args);
    rc_before = hx_refsum(args);
    {
        long long lim = hx_arg_int(args, "_limit_ms", 0);
        bool timed = hx_arg_bool(args, "_time", false);
        double t0 = now_ms();
        if (lim > 0) {
            struct itimerval it = { { 0, 0 }, { lim / 1000, (lim % 1000) * 1000 } };
            signal(SIGALRM, on_alarm);
            setitimer(ITIMER_REAL, &it, NULL);
        }
        if (hx_arg_bool(args, "_leakcheck", false)) {
            size_t b0, b1;
            json_t *tmp = fn(args);
            json_decref(tmp);
            ERR_clear_error();
            b0 = HX_HEAP_BYTES();
            tmp = fn(args);
            json_decref(tmp);
            ERR_clear_error();
            b1 = HX_HEAP_BYTES();
            leaked = (long long) b1 - (long long) b0;
            if (leaked != 0) {
                /* bounded growth is not a leak (OpenSSL keeps the data buffers of its 16-slot error ring
                 * for reuse): repeat until such state is saturated, then measure a steady-state batch */
                size_t c0, c1;
                for (int k = 0; k < 24; k++) {
                    tmp = fn(args);
                    json_decref(tmp);
                    ERR_clear_error();
                }
                c0 = HX_HEAP_BYTES();
                for (int k = 0; k < 8; k++) {
                    tmp = fn(args);
                    json_decref(tmp);
                    ERR_clear_error();
                }
                c1 = HX_HEAP_BYTES();
                leaked = ((long long) c1 - (long long) c0) / 8;
            }
        }
        res = fn(args);
        if (lim > 0) {
            struct itimerval it = { { 0, 0 }, { 0, 0 } };
            setitimer(ITIMER_REAL, &it, NULL);
        }
        if (json_object_get(args, "rand_fail") && json_is_object(res)) {
            extern __thread size_t hx_rand_last_calls;
            json_object_set_new(res, "rand_calls", json_integer((json_int_t) hx_rand_last_calls));
        }
        if (timed && json_is_object(res))
            json_object_set_new(res, "ms", json_integer((json_int_t) (now_ms() - t0)));
        if (leaked != 0 && json_is_object(res))
            json_object_set_new(res, "leak_bytes", json_integer((json_int_t) leaked));
    }
    if (!res)
        res = json_pack("{s:s}", "error", "op-returned-null");
    txt = json_dumps(res, JSON_COMPACT | JSON_SORT_KEYS | JSON_ENCODE_ANY);
    json_decref(res);
    mutated = !json_equal(before, args);
    refs = hx_refsum(args) != rc_before;
    json_decref(before);
    if ((mutated || refs) && txt) {
        json_t *again = json_loads(txt, JSON_ALLOW_NUL | JSON_DECODE_ANY, NULL);
        if (json_is_object(again)) {
            if (mutated)
                json_object_set_new(again, "args_mutated", json_true());
            if (refs)
                json_object_set_new(again, "refs_changed", json_true());
            free(txt);
            txt = json_dumps(again, JSON_COMPACT | JSON_SORT_KEYS | JSON_ENCODE_ANY);
        }
        json_decref(again);
    }
    json_decref(args);
    return txt ? txt : strdup("{\"error\":\"undumpable\"}");
}

/* --threads N: all lines are read first, line i is executed by thread i mod N (each thread works
 * on objects of its own: every line parses its own arguments), results are printed in input order */
#include <pthread.h>
static char **t_lines, **t_out;
static size_t t_n, t_threads;

static void *
worker(void *p)
{
    size_t me = (size_t) p;
    for (size_t i = me; i < t_n; i += t_threads)
        t_out[i] = hx_process(t_lines[i]);
    return NULL;
}

static int
threaded(size_t nthreads)
{
    char *line = NULL;
    size_t cap = 0, room = 0;
    ssize_t n;
    pthread_t th[64];

    while ((n = getline(&line, &cap, stdin)) > 0) {
        while (n > 0 && (line[n - 1] == '\n' || line[n - 1] == '\r'))
            line[--n] = 0;
        if (n == 0)
            continue;
        if (t_n == room) {
            room = room ? room * 2 : 1024;
            t_lines = realloc(t_lines, room * sizeof(*t_lines));
        }
        t_lines[t_n++] = strdup(line);
    }
    free(line);
    t_out = calloc(t_n + 1, sizeof(*t_out));
    t_threads = nthreads > 64 ? 64 : nthreads;
    for (size_t t = 0; t < t_threads; t++)
        pthread_create(&th[t], NULL, worker, (void *) t);
    for (size_t t = 0; t < t_threads; t++)
        pthread_join(th[t], NULL);
    for (size_t i = 0; i < t_n; i++) {
        puts(t_out[i] ? t_out[i] : "{\"error\":\"no-result\"}");
        free(t_out[i]);
        free(t_lines[i]);
    }
    free(t_out);
    free(t_lines);
    return 0;
}

int
main(int argc, char *argv[])
{
    char *line = NULL;
    size_t cap = 0;
    ssize_t n;

    if (argc == 3 && strcmp(argv[1], "--threads") == 0)
        return threaded((size_t) atoi(argv[2]));

    while ((n = getline(&line, &cap, stdin)) > 0) {
        char *txt;
        while (n > 0 && (line[n - 1] == '\n' || line[n - 1] == '\r'))
            line[--n] = 0;
        if (n == 0)
            continue;
        txt = hx_process(line);
        fputs(txt, stdout);
        fputc('\n', stdout);
        fflush(stdout);
        free(txt);
    }
    free(line);
    return 0;
}
