/* Correspondence harness, real side: executes one operation per input line
 * against the library objects built from /repo's current working tree.
 *
 *   input  line:  <op> <json-args>
 *   output line:  <canonical json result>     (JSON_COMPACT|JSON_SORT_KEYS)
 *
 * The Lean driver (lean/Main.lean) answers the same lines from the model. */
#include "hx.h"
#include <errno.h>

uint8_t *
hx_unhex(const char *hex, size_t *len)
{
    size_t n = strlen(hex) / 2;
    uint8_t *out = malloc(n ? n : 1);
    for (size_t i = 0; i < n; i++) {
        unsigned v = 0;
        sscanf(&hex[2 * i], "%2x", &v);
        out[i] = (uint8_t) v;
    }
    *len = n;
    return out;
}

json_t *
hx_hex(const void *buf, size_t len)
{
    static const char *d = "0123456789abcdef";
    const uint8_t *b = buf;
    char *s = malloc(len * 2 + 1);
    for (size_t i = 0; i < len; i++) {
        s[2 * i] = d[b[i] >> 4];
        s[2 * i + 1] = d[b[i] & 15];
    }
    s[len * 2] = 0;
    json_t *j = json_stringn(s, len * 2);
    free(s);
    return j;
}

uint8_t *
hx_arg_hex(json_t *args, const char *key, size_t *len)
{
    json_t *v = json_object_get(args, key);
    if (!json_is_string(v))
        return NULL;
    return hx_unhex(json_string_value(v), len);
}

json_t *
hx_size(size_t v)
{
    if (v == SIZE_MAX)
        return json_string("max");
    return json_integer((json_int_t) v);
}

json_t *
hx_opt(json_t *v)
{
    if (!v)
        return json_pack("{s:b}", "nil", 1);
    return json_pack("{s:o}", "v", v);
}

json_t *
hx_arg(json_t *args, const char *key)
{
    return json_object_get(args, key);
}

long long
hx_arg_int(json_t *args, const char *key, long long dflt)
{
    json_t *v = json_object_get(args, key);
    return json_is_integer(v) ? json_integer_value(v) : dflt;
}

bool
hx_arg_bool(json_t *args, const char *key, bool dflt)
{
    json_t *v = json_object_get(args, key);
    return json_is_boolean(v) ? json_is_true(v) : dflt;
}

const char *
hx_arg_str(json_t *args, const char *key)
{
    return json_string_value(json_object_get(args, key));
}

/* sum of the reference counts of every node of a JSON value (jansson keeps it in json_t.refcount) */
size_t
hx_refsum(json_t *j)
{
    size_t n = j ? j->refcount : 0;
    const char *k;
    json_t *v;
    size_t i;
    if (json_is_object(j))
        json_object_foreach(j, k, v)
            n += hx_refsum(v);
    else if (json_is_array(j))
        json_array_foreach(j, i, v)
            n += hx_refsum(v);
    return n;
}

static const op_t *const tables[] = {
    ops_tables, ops_b64, ops_io, ops_jwk, ops_misc, ops_jws, ops_jwe, ops_api, NULL
};

static op_fn
find_op(const char *name)
{
    for (size_t t = 0; tables[t]; t++)
        for (const op_t *o = tables[t]; o->name; o++)
            if (strcmp(o->name, name) == 0)
                return o->fn;
    return NULL;
}

int
main(int argc, char *argv[])
{
    char *line = NULL;
    size_t cap = 0;
    ssize_t n;

    while ((n = getline(&line, &cap, stdin)) > 0) {
        char *sp;
        json_t *args, *res;
        json_error_t err;
        op_fn fn;

        while (n > 0 && (line[n - 1] == '\n' || line[n - 1] == '\r'))
            line[--n] = 0;
        if (n == 0)
            continue;
        sp = strchr(line, ' ');
        if (sp)
            *sp++ = 0;
        fn = find_op(line);
        if (!fn) {
            printf("{\"error\":\"unknown-op\"}\n");
            fflush(stdout);
            continue;
        }
        args = json_loads(sp ? sp : "{}", JSON_ALLOW_NUL | JSON_DECODE_ANY, &err);
        if (!args) {
            printf("{\"error\":\"bad-args\"}\n");
            fflush(stdout);
            continue;
        }
        {
            /* C17 / C09: no operation may change the JSON values it is handed (mutating operations
             * work on copies made by the op itself), and once the result has been released the
             * reference counts of all argument nodes must be what they were */
            json_t *before = json_deep_copy(args);
            size_t rc_before = hx_refsum(args);
            char *txt;
            bool mutated, refs;
            res = fn(args);
            if (!res)
                res = json_pack("{s:s}", "error", "op-returned-null");
            txt = json_dumps(res, JSON_COMPACT | JSON_SORT_KEYS | JSON_ENCODE_ANY);
            json_decref(res);
            mutated = !json_equal(before, args);
            refs = hx_refsum(args) != rc_before;
            json_decref(before);
            if ((mutated || refs) && txt) {
                json_t *again = json_loads(txt, JSON_ALLOW_NUL | JSON_DECODE_ANY, NULL);
                if (json_is_object(again)) {
                    if (mutated)
                        json_object_set_new(again, "args_mutated", json_true());
                    if (refs)
                        json_object_set_new(again, "refs_changed", json_true());
                    free(txt);
                    txt = json_dumps(again, JSON_COMPACT | JSON_SORT_KEYS | JSON_ENCODE_ANY);
                }
                json_decref(again);
            }
            fputs(txt ? txt : "{\"error\":\"undumpable\"}", stdout);
            fputc('\n', stdout);
            fflush(stdout);
            free(txt);
        }
        json_decref(args);
    }
    free(line);
    return 0;
}
