/* tables: dump everything in the library that is a table or a constant */
#include "hx.h"
#include <jose/b64.h>
#include "hooks.h"
#include "openssl/misc.h"
#include "hx_io.h"

static json_t *
strlist(const char **l)
{
    json_t *a = json_array();
    for (size_t i = 0; l && l[i]; i++)
        json_array_append_new(a, json_string(l[i]));
    return a;
}

static json_t *
optstr(const char *s)
{
    return s ? json_string(s) : json_null();
}

static const char *
alg_kind(jose_hook_alg_kind_t k)
{
    switch (k) {
    case JOSE_HOOK_ALG_KIND_HASH: return "hash";
    case JOSE_HOOK_ALG_KIND_SIGN: return "sign";
    case JOSE_HOOK_ALG_KIND_WRAP: return "wrap";
    case JOSE_HOOK_ALG_KIND_ENCR: return "encr";
    case JOSE_HOOK_ALG_KIND_COMP: return "comp";
    case JOSE_HOOK_ALG_KIND_EXCH: return "exch";
    default: return "none";
    }
}

static json_t *
op_tables(json_t *args)
{
    json_t *res = json_object();
    json_t *algs = json_array();
    json_t *ktys = json_array();
    json_t *opers = json_array();
    size_t nprep = 0, nmake = 0;

    json_object_set_new(res, "b64map", json_string(JOSE_B64_MAP));
    json_object_set_new(res, "keymax", json_integer(KEYMAX));
    json_object_set_new(res, "cfg_err_base", json_integer((json_int_t) _JOSE_CFG_ERR_BASE));
    json_object_set_new(res, "cfg_err_names", hx_cfg_errnames());
    json_object_set_new(res, "max_compressed", json_integer(MAX_COMPRESSED_SIZE));

    for (const jose_hook_alg_t *a = jose_hook_alg_list(); a; a = a->next) {
        json_t *r = json_object();
        json_object_set_new(r, "name", json_string(a->name));
        json_object_set_new(r, "kind", json_string(alg_kind(a->kind)));
        switch (a->kind) {
        case JOSE_HOOK_ALG_KIND_HASH:
            json_object_set_new(r, "size", json_integer(a->hash.size));
            break;
        case JOSE_HOOK_ALG_KIND_SIGN:
            json_object_set_new(r, "p1", optstr(a->sign.sprm));
            json_object_set_new(r, "p2", optstr(a->sign.vprm));
            break;
        case JOSE_HOOK_ALG_KIND_WRAP:
            json_object_set_new(r, "p1", optstr(a->wrap.eprm));
            json_object_set_new(r, "p2", optstr(a->wrap.dprm));
            break;
        case JOSE_HOOK_ALG_KIND_ENCR:
            json_object_set_new(r, "p1", optstr(a->encr.eprm));
            json_object_set_new(r, "p2", optstr(a->encr.dprm));
            break;
        case JOSE_HOOK_ALG_KIND_EXCH:
            json_object_set_new(r, "p1", optstr(a->exch.prm));
            break;
        default:
            break;
        }
        json_array_append_new(algs, r);
    }

    for (const jose_hook_jwk_t *j = jose_hook_jwk_list(); j; j = j->next) {
        switch (j->kind) {
        case JOSE_HOOK_JWK_KIND_TYPE:
            json_array_append_new(ktys, json_pack("{s:s,s:o,s:o,s:o}",
                "kty", j->type.kty, "req", strlist(j->type.req),
                "pub", strlist(j->type.pub), "prv", strlist(j->type.prv)));
            break;
        case JOSE_HOOK_JWK_KIND_OPER:
            json_array_append_new(opers, json_pack("{s:o,s:o,s:o}",
                "pub", optstr(j->oper.pub), "prv", optstr(j->oper.prv),
                "use", optstr(j->oper.use)));
            break;
        case JOSE_HOOK_JWK_KIND_PREP: nprep++; break;
        case JOSE_HOOK_JWK_KIND_MAKE: nmake++; break;
        default: break;
        }
    }

    /* behavioural probe of the streaming codecs' staging-buffer sizes: length of the first
     * block handed downstream when more than a buffer-full is fed in one call */
    {
        jose_io_t *p = hx_probe(-1);
        jose_io_t *e = jose_b64_enc_io(p);
        uint8_t in[1024];
        json_t *log;
        memset(in, 'A', sizeof(in));
        e->feed(e, in, sizeof(in));
        log = hx_probe_log(p);
        json_object_set_new(res, "b64_enc_blk",
            json_integer((json_string_length(json_array_get(log, 0)) - 2) / 2 / 4 * 3));
        json_decref(log);
        jose_io_decref(e);
        jose_io_decref(p);
        p = hx_probe(-1);
        e = jose_b64_dec_io(p);
        e->feed(e, in, sizeof(in));
        log = hx_probe_log(p);
        json_object_set_new(res, "b64_dec_blk",
            json_integer((json_string_length(json_array_get(log, 0)) - 2) / 2 / 3 * 4));
        json_decref(log);
        jose_io_decref(e);
        jose_io_decref(p);
    }

    /* what the PREP hooks make of {"alg": name}: implied kty / crv / bytes, and whether a
     * different caller-supplied crv is refused */
    {
        json_t *prep = json_array();
        for (const jose_hook_alg_t *a = jose_hook_alg_list(); a; a = a->next) {
            json_t *t = json_pack("{s:s}", "alg", a->name);
            json_t *t2 = json_pack("{s:s,s:s}", "alg", a->name, "crv", "X-other");
            bool handled = false, ok = true, ok2 = true;
            for (const jose_hook_jwk_t *j = jose_hook_jwk_list(); j; j = j->next) {
                if (j->kind != JOSE_HOOK_JWK_KIND_PREP)
                    continue;
                if (j->prep.handles(NULL, t)) {
                    handled = true;
                    ok = ok && j->prep.execute(NULL, t);
                    ok2 = ok2 && j->prep.execute(NULL, t2);
                }
            }
            if (handled && ok)
                json_array_append_new(prep, json_pack("{s:s,s:O?,s:O?,s:O?,s:b}", "alg", a->name,
                    "kty", json_object_get(t, "kty"), "crv", json_object_get(t, "crv"),
                    "bytes", json_object_get(t, "bytes"), "crv_strict", !ok2));
            json_decref(t);
            json_decref(t2);
        }
        json_object_set_new(res, "prep", prep);
    }

    /* the suggestion hooks on a grid of probe keys supplied by the translator ("sug_keys"): for each key
     * the first non-NULL answer in registry order of sign.sug / wrap.alg / encr.sug (what find_alg() of
     * lib/jws.c, lib/jwe.c and jose_jwe_enc_cek_io() use), and wrap.enc of every key-management algorithm */
    {
        json_t *keys = json_object_get(args, "sug_keys");
        json_t *out = json_array();
        size_t i = 0;
        json_t *k = NULL;
        json_array_foreach(keys, i, k) {
            const char *sign = NULL, *walg = NULL, *encr = NULL;
            json_t *wenc = json_object();
            for (const jose_hook_alg_t *a = jose_hook_alg_list(); a; a = a->next) {
                if (a->kind == JOSE_HOOK_ALG_KIND_SIGN && !sign)
                    sign = a->sign.sug(a, NULL, k);
                if (a->kind == JOSE_HOOK_ALG_KIND_WRAP && !walg)
                    walg = a->wrap.alg(a, NULL, k);
                if (a->kind == JOSE_HOOK_ALG_KIND_ENCR && !encr && json_is_object(k))
                    encr = a->encr.sug(a, NULL, k);
                if (a->kind == JOSE_HOOK_ALG_KIND_WRAP && json_is_object(k))
                    json_object_set_new(wenc, a->name, optstr(a->wrap.enc(a, NULL, k)));
            }
            json_array_append_new(out, json_pack("{s:O,s:o,s:o,s:o,s:o}", "key", k, "sign", optstr(sign),
                                                 "walg", optstr(walg), "encr", optstr(encr), "wenc", wenc));
        }
        json_object_set_new(res, "sug", out);
    }

    json_object_set_new(res, "algs", algs);
    json_object_set_new(res, "ktys", ktys);
    json_object_set_new(res, "opers", opers);
    json_object_set_new(res, "nprep", json_integer(nprep));
    json_object_set_new(res, "nmake", json_integer(nmake));
    return res;
}

const op_t ops_tables[] = {
    { "tables", op_tables },
    { NULL, NULL }
};
