/* globals.snap: fingerprints of regions of this executable's static storage (C17 part c).
 * The regions (offsets relative to hx_anchor, sizes) come from the link map: every writable
 * section contributed by an object file of the library. */
#include "hx.h"

int hx_anchor = 1;

__attribute__((no_sanitize("address"), no_sanitize("thread"), noinline)) static uint64_t
fnv(const volatile uint8_t *p, size_t n)
{
    uint64_t h = 1469598103934665603ULL;
    for (size_t i = 0; i < n; i++) {
        h ^= p[i];
        h *= 1099511628211ULL;
    }
    return h;
}

static json_t *
op_globals_snap(json_t *args)
{
    json_t *regs = hx_arg(args, "regions"), *r, *out = json_array();
    size_t i;
    json_array_foreach(regs, i, r) {
        long long off = json_integer_value(json_array_get(r, 0));
        long long size = json_integer_value(json_array_get(r, 1));
        char buf[32];
        snprintf(buf, sizeof(buf), "%016llx",
                 (unsigned long long) fnv((const volatile uint8_t *) &hx_anchor + off, (size_t) size));
        json_array_append_new(out, json_string(buf));
    }
    return json_pack("{s:o}", "hashes", out);
}

const op_t ops_glob[] = {
    { "globals.snap", op_globals_snap },
    { NULL, NULL }
};
