#include "hx.h"
const op_t ops_jws[] = { { NULL, NULL } };
