/* jws.* operations: lib/jws.c through the public API */
#include "hx.h"
#include <jose/jws.h>
#include <jose/io.h>

/* jws.ver {jws, sig?, jwk, all} */
static json_t *
op_ver(json_t *args)
{
    bool r = jose_jws_ver(NULL, hx_arg(args, "jws"), hx_arg(args, "sig"), hx_arg(args, "jwk"),
                          hx_arg_bool(args, "all", false));
    return json_pack("{s:b}", "r", r);
}

/* jws.ver_io {jws, sig?, jwk, all, feeds:[hex]}: streaming verification of a detached payload */
static json_t *
op_ver_io(json_t *args)
{
    jose_io_t *io = jose_jws_ver_io(NULL, hx_arg(args, "jws"), hx_arg(args, "sig"), hx_arg(args, "jwk"),
                                    hx_arg_bool(args, "all", false));
    json_t *feeds = hx_arg(args, "feeds");
    json_t *res = json_object();
    json_t *fv = json_array();
    bool ok = true;
    size_t i;
    json_t *f;

    json_object_set_new(res, "io", json_boolean(io != NULL));
    if (io) {
        json_array_foreach(feeds, i, f) {
            size_t len = 0;
            uint8_t *b = hx_unhex(json_string_value(f), &len);
            ok = io->feed(io, b, len);
            free(b);
            json_array_append_new(fv, json_boolean(ok));
            if (!ok)
                break;
        }
        json_object_set_new(res, "feeds", fv);
        json_object_set_new(res, "done", ok ? json_boolean(io->done(io)) : json_null());
        jose_io_decref(io);
    } else {
        json_decref(fv);
    }
    return res;
}

/* jws.sig {jws, sig?, jwk} -> {ok, jws (after), sig (template after)} */
static json_t *
op_sig(json_t *args)
{
    json_t *jws = json_deep_copy(hx_arg(args, "jws"));
    json_t *sig = hx_tmpl(args, "sig");
    bool ok = jose_jws_sig(NULL, jws, sig, hx_arg(args, "jwk"));
    json_t *res = json_pack("{s:b}", "ok", ok);
    if (!hx_tmpl_refs_ok(sig, jws, "signatures"))
        json_object_set_new(res, "refs_changed", json_true());
    if (ok && jws)
        json_object_set(res, "jws", jws);
    json_decref(jws);
    json_decref(sig);
    return res;
}

/* jws.sig_io {jws, sig?, jwk, feeds:[hex]}: streaming signature over a detached payload */
static json_t *
op_sig_io(json_t *args)
{
    json_t *jws = json_deep_copy(hx_arg(args, "jws"));
    json_t *sig = hx_tmpl(args, "sig");
    jose_io_t *io = jose_jws_sig_io(NULL, jws, sig, hx_arg(args, "jwk"));
    json_t *feeds = hx_arg(args, "feeds");
    json_t *res = json_object();
    bool ok = io != NULL;
    size_t i;
    json_t *f;

    if (io) {
        json_array_foreach(feeds, i, f) {
            size_t len = 0;
            uint8_t *b = hx_unhex(json_string_value(f), &len);
            ok = io->feed(io, b, len);
            free(b);
            if (!ok)
                break;
        }
        ok = ok && io->done(io);
        jose_io_decref(io);
    }
    json_object_set_new(res, "ok", json_boolean(ok));
    if (ok && jws)
        json_object_set(res, "jws", jws);
    json_decref(jws);
    json_decref(sig);
    return res;
}

const op_t ops_jws[] = {
    { "jws.ver", op_ver },
    { "jws.ver_io", op_ver_io },
    { "jws.sig", op_sig },
    { "jws.sig_io", op_sig_io },
    { NULL, NULL }
};
