/* cfg.* operations: lib/cfg.c through the public API (C17 part a) */
#include "hx.h"
#include <jose/jose.h>
#include <unistd.h>
#include <fcntl.h>
#include <sys/mman.h>

#undef jose_cfg_err
void jose_cfg_err(jose_cfg_t *cfg, const char *file, int line, uint64_t err, const char *fmt, ...);

/* ---- stderr capture (the default handler prints there) ---- */
static int saved_fd = -1, cap_fd = -1;

void
hx_stderr_begin(void)
{
    fflush(stderr);
    cap_fd = memfd_create("hx-stderr", 0);
    saved_fd = dup(2);
    dup2(cap_fd, 2);
}

char *
hx_stderr_end(void)
{
    off_t n;
    char *buf;
    fflush(stderr);
    dup2(saved_fd, 2);
    close(saved_fd);
    n = lseek(cap_fd, 0, SEEK_END);
    buf = calloc(1, (size_t) n + 1);
    if (n > 0 && pread(cap_fd, buf, (size_t) n, 0) != n)
        buf[0] = 0;
    close(cap_fd);
    saved_fd = cap_fd = -1;
    return buf;
}

/* ---- recording handlers ---- */
#define NMISC 4
static char misc_cells[NMISC];
static json_t *hlog;

static void
record(int h, void *misc, uint64_t err, const char *fmt, va_list ap)
{
    char msg[512];
    long long m = -1;
    vsnprintf(msg, sizeof(msg), fmt, ap);
    if (!misc)
        m = 0;
    for (int i = 1; i < NMISC; i++)
        if (misc == &misc_cells[i])
            m = i;
    json_array_append_new(hlog, json_pack("{s:i,s:I,s:I,s:s}", "h", h, "misc", (json_int_t) m,
                                          "code", (json_int_t) err, "msg", msg));
}

static void
handler1(void *misc, const char *file, int line, uint64_t err, const char *fmt, va_list ap)
{
    record(1, misc, err, fmt, ap);
}

static void
handler2(void *misc, const char *file, int line, uint64_t err, const char *fmt, va_list ap)
{
    record(2, misc, err, fmt, ap);
}

static jose_cfg_err_t *const handlers[] = { NULL, handler1, handler2 };

/* the library calls behind the `lib` operation: each reports exactly one error to the context it is given */
static void
lib_call(jose_cfg_t *cfg, int k)
{
    json_auto_t *jws = json_pack("{s:s}", "payload", "AAAA");
    json_auto_t *sig = NULL, *jwk = NULL;

    switch (k) {
    case 0:
        sig = json_pack("{s:{s:s}}", "protected", "alg", "XX9");
        jwk = json_pack("{s:s,s:s}", "kty", "oct", "k", "AAAAAAAAAAAAAAAAAAAAAAAAAAAAAAAAAAAAAAAAAAA");
        break;
    case 1:
        sig = json_pack("{s:{s:s}}", "protected", "alg", "HS256");
        jwk = json_pack("{s:s,s:s,s:s}", "kty", "oct", "alg", "HS384",
                        "k", "AAAAAAAAAAAAAAAAAAAAAAAAAAAAAAAAAAAAAAAAAAA");
        break;
    case 2:
        sig = json_pack("{s:{s:s}}", "protected", "alg", "HS256");
        jwk = json_pack("{s:s,s:s,s:s}", "kty", "oct", "use", "enc",
                        "k", "AAAAAAAAAAAAAAAAAAAAAAAAAAAAAAAAAAAAAAAAAAA");
        break;
    default:
        sig = json_object();
        jwk = json_pack("{s:s}", "kty", "unheard-of");
        break;
    }
    (void) jose_jws_sig(cfg, jws, sig, jwk);
}

/* {"ops":[["new"],["incref",i],["decref",i],["auto",i],["set",i,h,m],["get",i],
 *         ["err",i|null,code,msg],["lib",i|null,k]]} */
static json_t *
op_cfg_hist(json_t *args)
{
    enum { MAXC = 16 };
    jose_cfg_t *slot[MAXC] = { NULL };
    size_t refs[MAXC] = { 0 };
    size_t nslot = 0, idx;
    json_t *ops = hx_arg(args, "ops"), *op, *outs = json_array();

    json_array_foreach(ops, idx, op) {
        const char *name = json_string_value(json_array_get(op, 0));
        json_t *a1 = json_array_get(op, 1);
        long long i = json_is_integer(a1) ? json_integer_value(a1) : -1;
        bool live = i >= 0 && (size_t) i < nslot && refs[i] > 0;
        json_t *out = NULL;

        if (!name) {
            out = json_pack("{s:s}", "o", "bad-op");
        } else if (strcmp(name, "new") == 0) {
            if (nslot < MAXC) {
                slot[nslot] = jose_cfg();
                refs[nslot] = 1;
                out = json_pack("{s:s,s:I}", "o", "created", "slot", (json_int_t) nslot);
                nslot++;
            }
        } else if (strcmp(name, "err") == 0 || strcmp(name, "lib") == 0) {
            bool null = json_is_null(a1);
            if (!null && !live) {
                out = json_pack("{s:s}", "o", "illegal");
            } else {
                char *txt;
                hlog = json_array();
                hx_stderr_begin();
                if (strcmp(name, "err") == 0)
                    jose_cfg_err(null ? NULL : slot[i], "site.c", 42,
                                 (uint64_t) json_integer_value(json_array_get(op, 2)), "%s%d",
                                 json_string_value(json_array_get(op, 3)), 7);
                else
                    lib_call(null ? NULL : slot[i], (int) json_integer_value(json_array_get(op, 2)));
                txt = hx_stderr_end();
                if (strcmp(name, "lib") == 0 && txt[0]) {
                    /* library sites report their own file:line; normalise to the model's */
                    char *c1 = strchr(txt, ':'), *c2 = c1 ? strchr(c1 + 1, ':') : NULL;
                    if (c2) {
                        char *n = malloc(strlen(c2) + 16);
                        sprintf(n, "site.c:42%s", c2);
                        free(txt);
                        txt = n;
                    }
                }
                out = json_pack("{s:s,s:o,s:s}", "o", "err", "calls", hlog, "stderr", txt);
                hlog = NULL;
                free(txt);
            }
        } else if (!live) {
            out = json_pack("{s:s}", "o", "illegal");
        } else if (strcmp(name, "incref") == 0) {
            jose_cfg_t *r = jose_cfg_incref(slot[i]);
            refs[i]++;
            out = json_pack("{s:s,s:b}", "o", "unit", "same", r == slot[i]);
        } else if (strcmp(name, "decref") == 0) {
            jose_cfg_decref(slot[i]);
            refs[i]--;
            out = json_pack("{s:s,s:b}", "o", "unit", "same", 1);
        } else if (strcmp(name, "auto") == 0) {
            jose_cfg_t *tmp = slot[i];
            jose_cfg_auto(&tmp);
            refs[i]--;
            out = json_pack("{s:s,s:b}", "o", "unit", "same", 1);
        } else if (strcmp(name, "set") == 0) {
            long long h = json_integer_value(json_array_get(op, 2));
            long long m = json_integer_value(json_array_get(op, 3));
            jose_cfg_set_err_func(slot[i], handlers[h % 3], m % NMISC ? &misc_cells[m % NMISC] : NULL);
            out = json_pack("{s:s,s:b}", "o", "unit", "same", 1);
        } else if (strcmp(name, "get") == 0) {
            void *p = jose_cfg_get_err_misc(slot[i]);
            long long m = -1;
            if (!p)
                m = 0;
            for (int k = 1; k < NMISC; k++)
                if (p == &misc_cells[k])
                    m = k;
            out = json_pack("{s:s,s:I}", "o", "misc", "misc", (json_int_t) m);
        }
        if (!out)
            out = json_pack("{s:s}", "o", "bad-op");
        json_array_append_new(outs, out);
    }
    /* release what the history left alive (ASan/LSan see anything the library mishandles) */
    for (size_t k = 0; k < nslot; k++)
        while (refs[k]-- > 0)
            jose_cfg_decref(slot[k]);
    return json_pack("{s:o}", "outs", outs);
}

/* table probe: names the default handler prints for the codes just above _JOSE_CFG_ERR_BASE */
json_t *
hx_cfg_errnames(void)
{
    json_t *names = json_array();
    for (uint64_t k = 0; k < 16; k++) {
        char *txt, *c;
        hx_stderr_begin();
        jose_cfg_err(NULL, "f", 1, _JOSE_CFG_ERR_BASE + k, "%s", "m");
        txt = hx_stderr_end();
        /* "f:1:NAME:m\n" */
        c = strlen(txt) > 4 ? strchr(txt + 4, ':') : NULL;
        if (c) {
            *c = 0;
            if (strcmp(txt + 4, "UNKNOWN") != 0)
                json_array_append_new(names, json_pack("[I,s]", (json_int_t) (_JOSE_CFG_ERR_BASE + k), txt + 4));
        }
        free(txt);
    }
    return names;
}

const op_t ops_cfg[] = {
    { "cfg.hist", op_cfg_hist },
    { NULL, NULL }
};
