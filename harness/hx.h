/* Shared helpers of the correspondence harness (real side). */
#pragma once
#include <jansson.h>
#include <stdbool.h>
#include <stddef.h>
#include <stdint.h>
#include <stdio.h>
#include <stdlib.h>
#include <string.h>

typedef json_t *(*op_fn)(json_t *args);

typedef struct {
    const char *name;
    op_fn fn;
} op_t;

/* registration tables, one per source file */
extern const op_t ops_b64[];
extern const op_t ops_tables[];
extern const op_t ops_io[];
extern const op_t ops_jwk[];
extern const op_t ops_misc[];
extern const op_t ops_jws[];
extern const op_t ops_jwe[];
extern const op_t ops_api[];
extern const op_t ops_cfg[];
extern const op_t ops_glob[];
extern const op_t ops_alloc[];
json_t *hx_cfg_errnames(void);
void hx_stderr_begin(void);
char *hx_stderr_end(void);

/* hex helpers */
uint8_t *hx_unhex(const char *hex, size_t *len);          /* malloc'd, never NULL on valid hex */
json_t *hx_hex(const void *buf, size_t len);              /* JSON string */
uint8_t *hx_arg_hex(json_t *args, const char *key, size_t *len); /* NULL if key absent */

/* size_t results: SIZE_MAX -> "max" */
json_t *hx_size(size_t v);

/* optional JSON result: NULL pointer -> {"nil":true}, else {"v":value} (steals ref) */
json_t *hx_opt(json_t *v);

/* argument access: an absent key means a NULL pointer; JSON null stays JSON null */
json_t *hx_arg(json_t *args, const char *key);            /* borrowed, NULL if absent */
long long hx_arg_int(json_t *args, const char *key, long long dflt);
bool hx_arg_bool(json_t *args, const char *key, bool dflt);
const char *hx_arg_str(json_t *args, const char *key);    /* NULL if absent / not a string */

size_t hx_refsum(json_t *j);
json_t *hx_tmpl(json_t *args, const char *key);
bool hx_tmpl_refs_ok(json_t *tmpl, json_t *owner, const char *plural);

#define CANARY 32
#define CANARY_BYTE 0xA5
/* RAND_bytes tape (hx_jwe.c) */
void hx_tape_set(json_t *args);
void hx_tape_clear(void);
